"""Source edits the checks must detect (applied to a scratch copy, never to /repo)."""

FC = "klongpy/db/file_cache.py"
DFC = "klongpy/db/df_cache.py"

MUTANTS = [
    # ---------------------------------------------------------------- C18
    {"property": "C18", "name": "revert-fix-loading-tag", "file": FC,
     "old": "self.file_futures[file_name] = (self.LOADING, claim, future)",
     "new": "self.file_futures[file_name] = (False, claim, future)"},
    {"property": "C18", "name": "revert-fix-unload-skips-busy", "file": FC,
     "old": "            if info is not None and info[0]:\n                # in-flight load or write: nothing is cached yet\n                return\n",
     "new": ""},
    {"property": "C18", "name": "no-lock-in-update_file_futures_and_memory", "file": FC,
     "old": "        with self.file_futures_lock:\n            can_cache = self.recover_memory(memory_usage)",
     "new": "        if True:\n            can_cache = self.recover_memory(memory_usage)",
     "also": [{"file": FC, "old": "        assert self.file_futures_lock.locked()\n", "new": "", "all": True}]},
    {"property": "C18", "name": "ignore-writing-flag", "file": FC,
     "old": "                if info is None or not info[0]:\n                    self._unload_file(file_name)",
     "new": "                if info is None or not info[0] or info[0] is True:\n                    self._unload_file(file_name)"},
    {"property": "C18", "name": "keeps-writing-true", "file": FC,
     "old": "                self.file_futures[file_name] = (False, memory_usage, info[-1])",
     "new": "                self.file_futures[file_name] = (info[0], memory_usage, info[-1])"},
    {"property": "C18", "name": "df-append-lock-removed", "file": DFC,
     "old": "        with flock:\n            try:",
     "new": "        if True:\n            try:"},
    {"property": "C18", "name": "unload-forgets-accounting", "file": FC,
     "old": "            self.current_memory_usage -= info[1]\n            del self.file_futures[file_name]",
     "new": "            del self.file_futures[file_name]"},
    {"property": "C18", "name": "update-does-not-unload-stale-entry", "file": FC,
     "old": "                    self._unload_file(file_name)\n                    future = self.executor.submit(self._write_file",
     "new": "                    future = self.executor.submit(self._write_file"},
]
