#!/venv/bin/python
"""Determinism self-test: every simulated run must be a pure function of (seed, source tree).

For each property the quick plan (scaled) is executed three times in fresh interpreter
processes - 16 workers, 5 workers, and 16 workers under PYTHONHASHSEED=1 - and the per-run
result digests (event-log digest, schedule digest, counters, violations, sample, tape length)
are compared run by run.  Any mismatch = harness broken (exit 3); it is never a VIOLATION and
never a pass.

  selftest/determinism.py [C18 ...] [--scale 0.1] [--seed 0]
"""
import argparse
import json
import os
import subprocess
import sys
import tempfile
import time

HERE = os.path.dirname(os.path.abspath(__file__))
VERIF = os.path.dirname(HERE)
ALL = ["C03", "C07", "C13", "C14", "C15", "C16", "C17", "C18", "C20"]


def run(prop, scale, seed, procs, hashseed, out):
    env = dict(os.environ)
    env["VERIF_DUMP_DIGESTS"] = out
    env["PYTHONHASHSEED"] = str(hashseed)
    env.pop("VERIF_REEXEC", None)
    evdir = tempfile.mkdtemp(prefix="det-ev-")
    env["VERIF_REPLAY_DIR"] = evdir
    cp = subprocess.run([os.path.join(VERIF, "check"), prop, "--tier", "quick", "--scale", str(scale), "--seed", str(seed),
                         "--procs", str(procs), "--evidence-dir", evdir], capture_output=True, text=True, env=env, cwd=VERIF, timeout=3000)
    subprocess.run(["rm", "-rf", evdir])
    return cp.returncode


def load(path):
    d = {}
    for line in open(path):
        cfg, idx, dg = line.split()
        d[(cfg, int(idx))] = dg
    return d


def main():
    ap = argparse.ArgumentParser()
    ap.add_argument("props", nargs="*")
    ap.add_argument("--scale", type=float, default=0.1)
    ap.add_argument("--seed", type=int, default=0)
    ap.add_argument("--out", default=os.path.join(VERIF, "selftest", "determinism_result.json"))
    args = ap.parse_args()
    props = args.props or ALL
    results = {}
    bad = 0
    for p in props:
        t0 = time.time()
        files = []
        codes = []
        for procs, hs in ((16, 0), (5, 0), (16, 1)):
            f = tempfile.mktemp(prefix=f"det-{p}-")
            open(f, "w").close()
            codes.append(run(p, args.scale, args.seed, procs, hs, f))
            files.append(f)
        a, b, c = (load(f) for f in files)
        for f in files:
            os.unlink(f)
        keys = set(a) | set(b) | set(c)
        mism = [k for k in sorted(keys) if not (a.get(k) == b.get(k) == c.get(k))]
        results[p] = {"runs_compared": len(keys), "mismatches": len(mism), "exit_codes": codes,
                      "configs": "16 workers/hashseed 0, 5 workers/hashseed 0, 16 workers/hashseed 1", "wall_s": round(time.time() - t0, 1),
                      "first_mismatch": [list(mism[0]), a.get(mism[0]), b.get(mism[0]), c.get(mism[0])] if mism else None}
        ok = not mism and len(keys) > 0 and len(set(codes)) == 1
        print(f"{'DETERMINISTIC' if ok else 'DIVERGES     '} {p} runs={len(keys)} mismatches={len(mism)} exit={codes} {results[p]['wall_s']}s"
              + (f" first={results[p]['first_mismatch']}" if mism else ""), flush=True)
        bad += 0 if ok else 1
    if not args.props:
        json.dump({"scale": args.scale, "seed": args.seed, "results": results}, open(args.out, "w"), indent=1)
    elif os.path.exists(args.out):
        # a re-run of some properties replaces their entries in the recorded result
        old = json.load(open(args.out))
        if old.get("scale") == args.scale and old.get("seed") == args.seed:
            old["results"].update(results)
            json.dump(old, open(args.out, "w"), indent=1)
    return 3 if bad else 0


if __name__ == "__main__":
    sys.exit(main())
