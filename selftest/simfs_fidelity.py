#!/venv/bin/python
"""SimFS fidelity self-test: random operation traces are applied both to SimFS and to a real
temporary directory (tmpfs) through the same seam klongpy.db.file_cache uses (open 'rb'/'wb',
os.makedirs, os.path.exists/getsize, os.fsync, and the wider POSIX surface a change to that code could start to use: stat, r+b/ab/xb/text modes, seek/truncate, os.open/write/lseek/fstat/close, remove, replace, rmdir, listdir, scandir); visible results and error *types* must agree
after every operation, and the final trees must be equal.

  selftest/simfs_fidelity.py [--cases 400] [--seed 0]
"""
import argparse
import os
import posixpath
import shutil
import sys
import tempfile

HERE = os.path.dirname(os.path.abspath(__file__))
sys.path.insert(0, os.path.dirname(HERE))

from sim.chooser import Chooser, derive_seed   # noqa: E402
from sim.simfs import SimFS   # noqa: E402

NAMES = ["a", "b", "d/a", "d/e/f", "d", "d/e", "a/x", "k k", "b.c"]


def real_tree(root):
    dirs, files = set(), {}
    for dp, dn, fn in os.walk(root):
        rel = os.path.relpath(dp, root)
        rel = "" if rel == "." else rel
        for d in dn:
            dirs.add(posixpath.join(rel, d))
        for f in fn:
            files[posixpath.join(rel, f)] = open(os.path.join(dp, f), "rb").read()
    return dirs, files


def sim_tree(fs, root):
    dirs = {p[len(root) + 1:] for p in fs.dirs if p.startswith(root + "/")}
    files = {p[len(root) + 1:]: bytes(v) for p, v in fs.files.items() if p.startswith(root + "/")}
    return dirs, files


def one_case(seed):
    ch = Chooser(seed)
    fs = SimFS(None, "/r")
    tmp = tempfile.mkdtemp(prefix="simfs-fid-", dir="/dev/shm" if os.path.isdir("/dev/shm") else None)
    try:
        for step in range(3 + ch.draw(14, "n")):
            name = ch.pick(NAMES, "name")
            op = ch.pick(["write", "write", "read", "exists", "getsize", "makedirs", "write_fsync", "stat", "patch", "append", "lowlevel",
                          "remove", "rename", "xcreate", "truncate", "listdir", "isfile", "text", "rmdir", "scandir"], "op")
            sp, rp = posixpath.join("/r", name), os.path.join(tmp, name)
            res = []
            eo = bool(ch.draw(2, "exist_ok"))
            payload = (name + str(step)).encode() * (1 + ch.draw(3, "len"))
            for kind, path in (("sim", sp), ("real", rp)):
                try:
                    if op in ("write", "write_fsync"):
                        f = (fs.open if kind == "sim" else open)(path, "wb")
                        with f:
                            f.write(payload)
                            if op == "write_fsync":
                                f.flush()
                                (fs.os if kind == "sim" else os).fsync(f.fileno())
                        res.append(("ok", len(payload)))
                    elif op == "read":
                        with (fs.open if kind == "sim" else open)(path, "rb") as f:
                            res.append(("ok", f.read()))
                    elif op == "exists":
                        res.append(("ok", (fs.os if kind == "sim" else os).path.exists(path)))
                    elif op == "getsize":
                        v = (fs.os if kind == "sim" else os).path.getsize(path)
                        isdir = (fs.os.path.isdir(path) if kind == "sim" else os.path.isdir(path))
                        res.append(("ok", "dir" if isdir else v))
                    elif op == "stat":
                        import stat as st_mod
                        st = (fs.os if kind == "sim" else os).stat(path)
                        res.append(("ok", "dir" if st_mod.S_ISDIR(st.st_mode) else ("file", st.st_size)))
                    elif op == "patch":
                        # update in place: seek, overwrite, truncate at a drawn size
                        with (fs.open if kind == "sim" else open)(path, "r+b") as f:
                            f.seek(2)
                            f.write(b"PATCH")
                            f.truncate(4 + 3 * eo)
                            f.seek(0)
                            res.append(("ok", f.read()))
                    elif op == "append":
                        with (fs.open if kind == "sim" else open)(path, "ab") as f:
                            f.write(payload[:5])
                            res.append(("ok", f.tell()))
                    elif op == "lowlevel":
                        o = fs.os if kind == "sim" else os
                        fd = o.open(path, o.O_WRONLY | o.O_CREAT | (o.O_TRUNC if eo else 0), 0o644)
                        try:
                            n = o.write(fd, payload[:7])
                            o.lseek(fd, 1, 0)
                            o.write(fd, b"z")
                            o.fsync(fd)
                            size = o.fstat(fd).st_size
                        finally:
                            o.close(fd)
                        res.append(("ok", n, size))
                    elif op == "remove":
                        (fs.os if kind == "sim" else os).remove(path)
                        res.append(("ok", None))
                    elif op == "rename":
                        o = fs.os if kind == "sim" else os
                        o.replace(path, path + ".new")
                        o.replace(path + ".new", path)
                        res.append(("ok", None))
                    elif op == "xcreate":
                        with (fs.open if kind == "sim" else open)(path, "xb") as f:
                            f.write(b"x")
                        res.append(("ok", None))
                    elif op == "truncate":
                        (fs.os if kind == "sim" else os).truncate(path, 3)
                        res.append(("ok", None))
                    elif op == "listdir":
                        res.append(("ok", sorted((fs.os if kind == "sim" else os).listdir(path))))
                    elif op == "scandir":
                        with (fs.os if kind == "sim" else os).scandir(path) as it:
                            res.append(("ok", sorted((e.name, e.is_dir(), e.is_file()) for e in it)))
                    elif op == "isfile":
                        o = fs.os if kind == "sim" else os
                        res.append(("ok", o.path.isfile(path), o.path.isdir(path)))
                    elif op == "text":
                        with (fs.open if kind == "sim" else open)(path, "w", encoding="utf-8") as f:
                            f.write("héllo\n")
                        with (fs.open if kind == "sim" else open)(path, "r", encoding="utf-8") as f:
                            res.append(("ok", f.read()))
                    elif op == "rmdir":
                        (fs.os if kind == "sim" else os).rmdir(path)
                        res.append(("ok", None))
                    else:
                        (fs.os if kind == "sim" else os).makedirs(path, exist_ok=eo)
                        res.append(("ok", None))
                except OSError as e:
                    res.append(("exc", type(e).__name__))
            if res[0] != res[1]:
                return f"seed {seed} step {step}: {op}({name}) sim={res[0]} real={res[1]}"
        if sim_tree(fs, "/r") != real_tree(tmp):
            return f"seed {seed}: final trees differ: sim={sim_tree(fs, '/r')} real={real_tree(tmp)}"
        return None
    finally:
        shutil.rmtree(tmp, ignore_errors=True)


def main():
    ap = argparse.ArgumentParser()
    ap.add_argument("--cases", type=int, default=400)
    ap.add_argument("--seed", type=int, default=0)
    args = ap.parse_args()
    bad = []
    for i in range(args.cases):
        r = one_case(derive_seed(args.seed, "simfs", i))
        if r:
            bad.append(r)
    print(f"simfs fidelity: {args.cases} random traces, {len(bad)} disagreement(s)")
    for b in bad[:5]:
        print("  " + b)
    return 3 if bad else 0


if __name__ == "__main__":
    sys.exit(main())
