#!/venv/bin/python
"""Sensitivity self-test: apply small source edits ("mutants") to a scratch copy of
/repo/klongpy under a temp dir (removed afterwards) and require the property's check to
report a violation (exit 1) within its quick budget.

  selftest/mutants.py [C18 ...] [--scale S] [--only name] [--jobs N]
"""
import argparse
import json
import os
import shutil
import subprocess
import sys
import tempfile
import time

HERE = os.path.dirname(os.path.abspath(__file__))
VERIF = os.path.dirname(HERE)
sys.path.insert(0, VERIF)

from selftest.mutant_defs import MUTANTS   # noqa: E402


def apply_mutant(root, m):
    path = os.path.join(root, m["file"])
    src = open(path).read()
    if m["old"] not in src:
        raise RuntimeError(f"mutant {m['name']}: pattern not found in {m['file']}")
    if src.count(m["old"]) > 1 and not m.get("all"):
        src = src.replace(m["old"], m["new"], 1) if m.get("first") else None
        if src is None:
            raise RuntimeError(f"mutant {m['name']}: pattern not unique in {m['file']}")
    else:
        src = src.replace(m["old"], m["new"])
    open(path, "w").write(src)


def run_mutant(m, scale, seed, tier="quick"):
    tmp = tempfile.mkdtemp(prefix="klmut-")
    try:
        shutil.copytree("/repo/klongpy", os.path.join(tmp, "klongpy"),
                        ignore=shutil.ignore_patterns("__pycache__"))
        for e in ([m] + m.get("also", [])):
            apply_mutant(tmp, e)
        env = dict(os.environ)
        env["VERIF_REPO"] = tmp
        env["VERIF_REPLAY_DIR"] = os.path.join(tmp, "replays")
        env.pop("VERIF_REEXEC", None)
        evdir = os.path.join(tmp, "evidence")
        t0 = time.time()
        cp = subprocess.run([os.path.join(VERIF, "check"), m["property"], "--tier", tier, "--scale", str(scale * m.get("scale", 1.0)),
                             "--seed", str(seed), "--evidence-dir", evdir] + m.get("args", []),
                            capture_output=True, text=True, env=env, cwd=VERIF, timeout=1800)
        dt = time.time() - t0
        sigs = [l for l in cp.stdout.splitlines() if l.startswith("violation sig=")]
        return {"name": m["name"], "property": m["property"], "exit": cp.returncode, "killed": cp.returncode == 1,
                "wall_s": round(dt, 1), "sigs": [s[:200] for s in sigs[:4]],
                "tail": cp.stdout.splitlines()[-3:] if cp.returncode not in (0, 1) else []}
    finally:
        shutil.rmtree(tmp, ignore_errors=True)


def main():
    ap = argparse.ArgumentParser()
    ap.add_argument("props", nargs="*")
    ap.add_argument("--scale", type=float, default=1.0)
    ap.add_argument("--seed", type=int, default=0)
    ap.add_argument("--only")
    ap.add_argument("--tier", default="quick")
    ap.add_argument("--out", default=os.path.join(VERIF, "selftest", "mutants_result.json"))
    args = ap.parse_args()
    todo = [m for m in MUTANTS if (not args.props or m["property"] in args.props) and (not args.only or args.only in m["name"])]
    results = []
    for m in todo:
        try:
            r = run_mutant(m, args.scale, args.seed, args.tier)
        except Exception as e:
            r = {"name": m["name"], "property": m["property"], "exit": None, "killed": False, "error": str(e)}
        results.append(r)
        print(("KILLED  " if r["killed"] else "SURVIVED") + f" {m['property']} {m['name']} exit={r.get('exit')} {r.get('wall_s')}s "
              + (r["sigs"][0][:140] if r.get("sigs") else r.get("error", "") or " ".join(r.get("tail", []))), flush=True)
    killed = sum(1 for r in results if r["killed"])
    print(f"mutants killed {killed}/{len(results)}")
    if not args.only and not args.props:
        json.dump({"killed": killed, "total": len(results), "results": results}, open(args.out, "w"), indent=1)
    return 0 if killed == len(results) else 1


if __name__ == "__main__":
    sys.exit(main())
