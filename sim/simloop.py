"""SimLoop: an asyncio event loop with virtual time whose every step is a scheduler decision,
and SimNet: in-memory TCP between SimLoops with drawn fragmentation, delay, FIN and RST.

The loop keeps the iteration structure of BaseEventLoop._run_once (I/O events enter only at
the start of an iteration, at most one per transport; due timers are moved; the batch is
snapshotted) but yields the baton to the World after every handle.
"""
import asyncio
import collections
import heapq
from asyncio import base_events, events, transports

from .world import HarnessError, SimAbort, current_actor


class SimLoop(base_events.BaseEventLoop):
    def __init__(self, world, name, net=None):
        super().__init__()
        self.on_handle_start = None     # harness hook: called with a handle right before it runs
        self.world = world
        self.name = name
        self.net = net
        self._inbox = collections.deque()        # one-shot I/O events (callables)
        self._transports_rx = []                 # transports that may have rx work
        self.actor = None
        self.handles_run = 0
        self._asleep = False
        self._woken = False
        self.iterations = 0
        world.timer_sources.append(self._next_timer_the_world_may_wait_for)

    # -- clock -------------------------------------------------------------
    def time(self):
        return self.world.now

    # -- no self-pipe, no selector ----------------------------------------
    def _write_to_self(self):
        # the self-pipe write of call_soon_threadsafe: the only thing (besides I/O and timers) that
        # wakes a loop sleeping in select()
        self._woken = True

    def _process_events(self, event_list):
        pass

    def _make_socket_transport(self, *a, **k):
        raise HarnessError("real socket transport requested inside simulation")

    # -- scheduling predicates ---------------------------------------------
    def _next_timer(self):
        if self.is_closed():
            return None
        sch = self._scheduled
        while sch and sch[0]._cancelled:
            self._timer_cancelled_count -= 1
            h = heapq.heappop(sch)
            h._scheduled = False
        if sch:
            return sch[0]._when
        return None

    def _next_timer_the_world_may_wait_for(self):
        """what the world's clock may jump to when nothing is runnable.  A loop that is not idle at that moment is blocked
        INSIDE a handle (waiting for another thread): it fires no timer before that wait ends, so a timer of its that is
        already due is not something the clock can be moved "to" - the jump would leave it where it is, for ever (seen:
        .webc on the klong loop waiting for aiohttp's shutdown time-out on the io loop, with a due timer of its own)."""
        t = self._next_timer()
        if t is not None and t <= self.world.now and not self._asleep and self.actor is not None and self.actor.state != "done":
            return None
        return t

    def _io_ready(self):
        if self._inbox:
            return True
        for t in self._transports_rx:
            if t._rx_ready():
                return True
        return False

    def _has_work(self):
        if self._stopping:
            return True
        if self._ready and (not self._asleep or self._woken):
            # a handle appended by another thread WITHOUT the threadsafe wake-up does not end the
            # select() of a sleeping loop - it runs only when something else wakes the loop
            return True
        if self._io_ready():
            return True
        t = self._next_timer()
        if t is not None and t < self.world.now + self._clock_resolution:
            return True
        return False

    # -- the iteration -----------------------------------------------------
    def _run_once(self):
        w = self.world
        if not self._has_work():
            self._asleep = True
            try:
                w.block_until(self._has_work, "loop.idle")
            finally:
                self._asleep = False
        self._woken = False
        self.iterations += 1
        # 1. I/O events: everything in the inbox, at most one event per transport
        while self._inbox:
            self._ready.append(events.Handle(self._inbox.popleft(), (), self))
        if self._transports_rx:
            for t in list(self._transports_rx):
                cb = t._poll()
                if cb is not None:
                    self._ready.append(events.Handle(cb, (), self))
        # 2. due timers
        end_time = w.now + self._clock_resolution
        sch = self._scheduled
        while sch:
            h = sch[0]
            if h._cancelled:
                heapq.heappop(sch)
                h._scheduled = False
                self._timer_cancelled_count -= 1
                continue
            if h._when >= end_time:
                break
            heapq.heappop(sch)
            h._scheduled = False
            self._ready.append(h)
        # 3. the batch
        ntodo = len(self._ready)
        for _ in range(ntodo):
            h = self._ready.popleft()
            if h._cancelled:
                continue
            self.handles_run += 1
            if self.on_handle_start is not None:
                self.on_handle_start(h)
            h._run()
            h = None
            w.yield_point("handle")

    def run_as_actor(self):
        """Body of the loop's actor thread (mirrors repl.start_loop)."""
        asyncio.set_event_loop(self)
        try:
            self.run_forever()
        finally:
            try:
                asyncio.set_event_loop(None)
            except Exception:
                pass

    def start(self):
        self.actor = self.world.spawn(self.name, self.run_as_actor, kind="loop", daemon_like=True)
        return self.actor

    # -- networking ----------------------------------------------------------
    async def create_connection(self, protocol_factory, host=None, port=None, **kw):
        if self.net is None:
            raise HarnessError("no SimNet attached")
        return await self.net.connect(self, protocol_factory, host, port)

    async def create_server(self, protocol_factory, host=None, port=None, *, backlog=100,
                            ssl=None, start_serving=True, **kw):
        if self.net is None:
            raise HarnessError("no SimNet attached")
        sock = FakeListenSocket(host, port)
        server = base_events.Server(self, [sock], protocol_factory, None, backlog, None, None)
        if start_serving:
            server._start_serving()
            await asyncio.sleep(0)
        return server

    def _start_serving(self, protocol_factory, sock, sslcontext=None, server=None, backlog=100,
                       ssl_handshake_timeout=None, ssl_shutdown_timeout=None):
        self.net.listen(sock.port, self, protocol_factory, server, sock)

    def _stop_serving(self, sock):
        self.net.unlisten(sock.port, sock)
        sock.closed = True

    async def getaddrinfo(self, host, port, **kw):
        return [(2, 1, 6, "", (host or "127.0.0.1", port))]

    def run_in_executor(self, executor, func, *args):
        raise HarnessError("run_in_executor inside simulation")

    def close(self):
        if self.is_running():
            raise RuntimeError("Cannot close a running event loop")
        if self.is_closed():
            return
        self._closed = True
        self._ready.clear()
        self._scheduled.clear()


class FakeListenSocket:
    family = 2
    type = 1
    proto = 6

    def __init__(self, host, port):
        self.host = host or "0.0.0.0"
        self.port = port
        self.closed = False

    def listen(self, backlog):
        pass

    def getsockname(self):
        return (self.host, self.port)

    def fileno(self):
        return -1

    def close(self):
        self.closed = True

    def setblocking(self, b):
        pass


class _SockInfo:
    """What transport.get_extra_info('socket') returns: enough for callers that only look."""
    family = 2
    type = 1
    proto = 6

    def __init__(self, local, peer):
        self._local = local
        self._peer = peer

    def getsockname(self):
        return self._local

    def getpeername(self):
        return self._peer

    def setsockopt(self, *a):
        pass

    def getsockopt(self, *a):
        return 0

    def fileno(self):
        return -1


class SimTransport(transports._FlowControlMixin, transports.Transport):
    """One end of an in-memory TCP connection."""

    def __init__(self, net, loop, protocol, conn, side, local, peer, server=None):
        transports._FlowControlMixin.__init__(self, {"peername": peer, "sockname": local}, loop)
        self._extra["socket"] = None
        self.net = net
        self._loop = loop
        self._protocol = protocol
        self.conn = conn
        self.side = side              # 0 = client end, 1 = server end
        self.other = None             # peer SimTransport
        self._closing = False         # close() called locally
        self._conn_lost = False       # connection_lost scheduled/called
        self._sock_closed = False     # the socket itself is closed: only when connection_lost has RUN on the owning loop
        self._sock_close = None       # how it will be closed: 'fin' | 'rst'
        self._paused = False
        self._eof_sent = False
        self._server = server
        # receive side ("kernel socket buffer")
        self.rx = bytearray()
        self.rx_fin = False           # FIN has arrived (after rx data)
        self.rx_fin_seen = False      # eof_received already called
        self.rx_err = None            # pending error (RST) to surface at next poll
        self.bytes_written = 0
        self.bytes_received = 0
        if server is not None:
            server._attach()
        if net.wbuf_high is not None:
            self.set_write_buffer_limits(high=net.wbuf_high, low=0)
        loop._transports_rx.append(self)

    # ---- loop side -----------------------------------------------------
    def _rx_ready(self):
        if self._conn_lost:
            return False
        if self.rx_err is not None:
            return True
        if self._paused or self._closing:
            return False
        return bool(self.rx) or (self.rx_fin and not self.rx_fin_seen)

    def _poll(self):
        """Called at the start of a loop iteration: at most one event per transport."""
        if not self._rx_ready():
            return None
        if self.rx_err is not None:
            exc = self.rx_err
            self.rx_err = None
            self.rx.clear()
            return lambda: self._force_close(exc)
        if self.rx:
            data = bytes(self.rx)
            self.rx.clear()
            self.bytes_received += len(data)
            return lambda: self._data_received(data)
        self.rx_fin_seen = True
        return self._eof_received

    def _data_received(self, data):
        if self._conn_lost:
            return
        try:
            self._protocol.data_received(data)
        except (SystemExit, KeyboardInterrupt):
            raise
        except BaseException as exc:
            self._fatal_error(exc, "Fatal error: protocol.data_received() call failed.")

    def _eof_received(self):
        if self._conn_lost:
            return
        try:
            keep_open = self._protocol.eof_received()
        except (SystemExit, KeyboardInterrupt):
            raise
        except BaseException as exc:
            self._fatal_error(exc, "Fatal error: protocol.eof_received() call failed.")
            return
        if not keep_open:
            self.close()

    def _fatal_error(self, exc, message="Fatal error on transport"):
        if not isinstance(exc, OSError):
            self._loop.call_exception_handler({"message": message, "exception": exc,
                                               "transport": self, "protocol": self._protocol})
        self._force_close(exc)

    def _force_close(self, exc):
        if self._conn_lost:
            return
        if not self._closing:
            self._closing = True
        self._conn_lost = True
        self._sock_close = "rst"
        self._loop.call_soon(self._call_connection_lost, exc)

    def _call_connection_lost(self, exc):
        # As in asyncio's selector transport the socket is closed HERE, on the owning loop, not in close(): close() only
        # stops reading and schedules this call.  A close() issued from a foreign thread while the loop sleeps in select()
        # therefore closes nothing until something else wakes the loop - the peer sees neither FIN nor RST meanwhile, and
        # data it sends is accepted by the kernel and never read.
        try:
            self._protocol.connection_lost(exc)
        finally:
            self._sock_closed = True
            # closing a socket that still holds unread received data makes the kernel send RST instead of FIN
            self.net._endpoint_gone(self, abort=(self._sock_close == "rst" or bool(self.rx)))
            if self in self._loop._transports_rx:
                self._loop._transports_rx.remove(self)
            server = self._server
            if server is not None:
                server._detach()
                self._server = None

    # ---- transport API ---------------------------------------------------
    def set_protocol(self, protocol):
        self._protocol = protocol

    def get_protocol(self):
        return self._protocol

    def is_closing(self):
        return self._closing

    def is_reading(self):
        return not self._paused and not self._closing

    def pause_reading(self):
        self._paused = True

    def resume_reading(self):
        self._paused = False

    def get_write_buffer_size(self):
        # with back-pressure enabled (drawn per run) everything written and not yet taken by the
        # network counts as buffered, so writer.drain() really suspends the sender
        if self.net.wbuf_high is None:
            return 0
        p = self.conn.pipes[self.side]
        return 0 if p.dead else len(p.buf)

    def write(self, data):
        if not isinstance(data, (bytes, bytearray, memoryview)):
            raise TypeError(f"data argument must be a bytes-like object, not {type(data).__name__!r}")
        if self._eof_sent:
            raise RuntimeError("Cannot call write() after write_eof()")
        if not data:
            return
        if self._conn_lost or self._closing:
            # stdlib: counts and warns, data is dropped
            return
        self.bytes_written += len(data)
        self.net._send(self, bytes(data))
        if self.net.wbuf_high is not None:
            self._maybe_pause_protocol()
            if self._protocol_paused:
                self.net.stats["net_backpressure_pauses"] += 1

    def writelines(self, list_of_data):
        self.write(b"".join(bytes(d) for d in list_of_data))

    def can_write_eof(self):
        return True

    def write_eof(self):
        if self._closing or self._eof_sent:
            return
        self._eof_sent = True
        self.net._send_fin(self)

    def close(self):
        if self._closing:
            return
        self._closing = True
        self._sock_close = "fin"
        if self.get_write_buffer_size() > 0:
            # asyncio: with unsent bytes in the write buffer close() only stops reading; connection_lost (and with it
            # wait_closed()) comes when the buffer has been flushed to the peer - or the connection breaks
            self._close_when_drained = True
            self.net.stats["net_close_waits_for_unsent_bytes"] += 1
            return
        self._conn_lost = True
        self._loop.call_soon(self._call_connection_lost, None)

    def _drained_or_dead(self):
        """called by the network when it took bytes of this end or the connection died (on any thread: goes through the inbox)"""
        if getattr(self, "_close_when_drained", False) and not self._conn_lost and self.get_write_buffer_size() == 0:
            self._close_when_drained = False
            self._conn_lost = True
            self._loop._inbox.append(lambda: self._call_connection_lost(None))

    def abort(self):
        self._force_close(None)

    def __del__(self):
        pass


class _Pipe:
    """One direction of a connection: bytes written but not yet arrived at the receiver."""
    __slots__ = ("src", "dst", "buf", "fin", "delivered", "label", "cut_at", "cut_kind", "dead", "stall_at", "stall_for", "hold_until")

    def __init__(self, label):
        self.src = None
        self.dst = None
        self.buf = bytearray()
        self.fin = False
        self.delivered = 0
        self.label = label
        self.cut_at = None     # absolute stream offset at which the connection is cut
        self.cut_kind = None   # 'fin' | 'rst'
        self.dead = False
        self.stall_at = None   # absolute stream offset after which the path goes silent for stall_for virtual seconds
        self.stall_for = 0.0
        self.hold_until = None  # virtual time before which nothing more of this direction arrives


class _Conn:
    def __init__(self, cid, port):
        self.cid = cid
        self.port = port
        self.pipes = [_Pipe(f"c{cid}>"), _Pipe(f"c{cid}<")]   # 0: client->server, 1: server->client
        self.ends = [None, None]
        self.state = "syn"
        self.cut = False


class SimNet:
    """In-memory TCP.  Guarantees kept: per-direction order, no loss or duplication inside a
    live connection.  Injected: fragmentation/coalescing, delay, FIN or RST at byte k,
    refused connects."""

    # fragment lengths biased to protocol field boundaries of the IPC frame (16-byte id, 4-byte length)
    FRAG_BIAS = (1, 2, 3, 4, 5, 15, 16, 17, 19, 20, 21, 22, 64)

    def __init__(self, world, frag_mode=None):
        self.world = world
        self.listeners = {}
        self.conns = []
        self.pending_connects = []
        self.stats = world.stats
        ch = world.ch
        # 0: deliver whole buffers, 1: drawn fragments, 2: tiny fragments
        self.frag_mode = ch.weighted([2, 5, 2], "frag_mode") if frag_mode is None else frag_mode
        # write back-pressure knob (drawn per run): None = the kernel absorbs every write at once (drain()
        # never suspends); 0 / 64 = the sender is paused until the network has taken its bytes
        self.wbuf_high = [None, None, None, 0, 64][ch.draw(5, "wbuf_high")]
        self.cut_plans = []           # callables(conn) -> None, applied to new connections
        self.on_deliver = None
        world.pseudo_sources.append(self._enabled)
        world.timer_sources.append(self._next_release)

    # ---- listeners --------------------------------------------------------
    def listen(self, port, loop, factory, server, sock):
        if port in self.listeners:
            raise OSError(98, f"address already in use: {port}")
        self.listeners[port] = (loop, factory, server, sock)

    def unlisten(self, port, sock):
        cur = self.listeners.get(port)
        if cur is not None and cur[3] is sock:
            del self.listeners[port]

    # ---- connect ----------------------------------------------------------
    async def connect(self, loop, factory, host, port):
        waiter = loop.create_future()
        conn = _Conn(len(self.conns), port)
        self.conns.append(conn)
        self.pending_connects.append((conn, loop, factory, waiter))
        self.world.note(f"net syn c{conn.cid} port={port}")
        try:
            transport, protocol = await waiter
        except BaseException:
            self.pending_connects = [p for p in self.pending_connects if p[0] is not conn]
            raise
        return transport, protocol

    def _complete_connect(self, item):
        conn, cloop, cfactory, waiter = item
        self.pending_connects.remove(item)
        if waiter.done():
            return
        lst = self.listeners.get(conn.port)
        if lst is None:
            self.stats["net_refused"] += 1
            self.world.note(f"net refused c{conn.cid}")
            cloop._inbox.append(lambda: (not waiter.done()) and waiter.set_exception(
                ConnectionRefusedError(111, f"Connect call failed ('127.0.0.1', {conn.port})")))
            conn.state = "refused"
            return
        sloop, sfactory, server, sock = lst
        caddr = ("127.0.0.1", 40000 + conn.cid)
        saddr = ("127.0.0.1", conn.port)
        conn.state = "open"
        self.stats["net_connects"] += 1
        self.world.note(f"net open c{conn.cid}")
        for plan in self.cut_plans:
            plan(conn)

        def client_side():
            if waiter.done():
                # connect() was cancelled: behave like an immediately closed socket
                self._kill(conn, "rst")
                return
            proto = cfactory()
            tr = SimTransport(self, cloop, proto, conn, 0, caddr, saddr)
            conn.ends[0] = tr
            conn.pipes[0].src = tr
            conn.pipes[1].dst = tr
            if conn.ends[1] is not None:
                tr.other = conn.ends[1]
                conn.ends[1].other = tr
            cloop.call_soon(proto.connection_made, tr)
            cloop.call_soon(lambda: (not waiter.done()) and waiter.set_result((tr, proto)))

        def server_side():
            if server is not None and server._sockets is None:
                # listener closed between SYN and accept: the connection is reset
                self._kill(conn, "rst")
                return
            proto = sfactory()
            tr = SimTransport(self, sloop, proto, conn, 1, saddr, caddr, server=server)
            conn.ends[1] = tr
            conn.pipes[1].src = tr
            conn.pipes[0].dst = tr
            if conn.ends[0] is not None:
                tr.other = conn.ends[0]
                conn.ends[0].other = tr
            sloop.call_soon(proto.connection_made, tr)

        cloop._inbox.append(client_side)
        sloop._inbox.append(server_side)

    # ---- data path ----------------------------------------------------------
    def _pipe_of(self, tr):
        return tr.conn.pipes[tr.side]

    def _send(self, tr, data):
        p = self._pipe_of(tr)
        if p.dead:
            # writing into a severed connection: the kernel answers with RST
            if tr.conn.cut and not tr._conn_lost and tr.rx_err is None:
                tr.rx_err = ConnectionResetError(104, "Connection reset by peer")
            return
        p.buf += data

    def _send_fin(self, tr):
        p = self._pipe_of(tr)
        if not p.dead:
            p.fin = True

    def _endpoint_gone(self, tr, abort):
        """Local close()/abort of one end."""
        conn = tr.conn
        out = conn.pipes[tr.side]
        inc = conn.pipes[1 - tr.side]
        if abort:
            # RST: everything in flight is dropped, the peer sees a reset
            out.buf.clear()
            out.dead = True
            inc.buf.clear()
            inc.dead = True
            other = conn.ends[1 - tr.side]
            if other is not None and not other._conn_lost and other.rx_err is None:
                other.rx_err = ConnectionResetError(104, "Connection reset by peer")
        else:
            # orderly close: pending output is still delivered, then FIN
            out.fin = True
            # data arriving for a closed socket is answered with RST (handled in _arrive)
            tr.rx.clear()

    def _next_release(self):
        """earliest end of a stall (a timer source of the world: virtual time may jump to it)"""
        t = None
        for conn in self.conns:
            if conn.state != "open":
                continue
            for p in conn.pipes:
                if p.hold_until is not None and not p.dead and (p.buf or p.fin) and (t is None or p.hold_until < t):
                    t = p.hold_until
        return t

    def _enabled(self):
        ev = []
        for item in self.pending_connects:
            ev.append((f"connect c{item[0].cid}", lambda item=item: self._complete_connect(item)))
        for conn in self.conns:
            if conn.state != "open":
                continue
            for p in conn.pipes:
                if p.dead or p.dst is None:
                    continue
                if p.hold_until is not None:
                    if self.world.now < p.hold_until:
                        continue          # the path is silent: nothing arrives, nothing is lost
                    p.hold_until = None
                if p.buf or p.fin:
                    ev.append((f"arrive {p.label}", lambda p=p, conn=conn: self._arrive(conn, p)))
        return ev

    def _frag_len(self, n):
        ch = self.world.ch
        if self.frag_mode == 0 or n == 1:
            return n
        if n > 700:
            # bulk of a large message in one piece (keeps step counts bounded); its last few hundred
            # bytes, and whatever follows, are fragmented finely as usual
            return n - 300 - ch.draw(300, "fragbulk")
        if self.frag_mode == 2:
            k = 1 + ch.draw(4, "frag")
            return min(n, k)
        m = ch.draw(4, "fragkind")
        if m == 0:
            return n
        if m == 1:
            return min(n, ch.pick(self.FRAG_BIAS, "fragbias"))
        if m == 2:
            return max(1, n - 1 - ch.draw(min(n, 4), "fragtail"))
        return 1 + ch.draw(n, "fraguni")

    def _arrive(self, conn, p):
        dst = p.dst
        if p.buf:
            n = self._frag_len(len(p.buf))
            if p.stall_at is not None and p.delivered <= p.stall_at < p.delivered + len(p.buf):
                # deliver up to the stall position, then silence for a while (a congested or re-routing path, a peer
                # that was descheduled in the middle of a write): TCP delays, it does not lose
                n = min(n, p.stall_at - p.delivered) if p.stall_at > p.delivered else 0
                if n == 0:
                    p.hold_until = self.world.now + p.stall_for
                    p.stall_at = None
                    self.stats["net_stall"] += 1
                    self.world.note(f"net stall {p.label} {p.stall_for}")
                    return
            if p.cut_at is not None and p.delivered + n >= p.cut_at:
                n = p.cut_at - p.delivered
                frag = bytes(p.buf[:n])
                self._deliver_bytes(conn, p, dst, frag)
                self._kill(conn, p.cut_kind, cut_pipe=p)
                return
            frag = bytes(p.buf[:n])
            del p.buf[:n]
            src = p.src
            if self.wbuf_high is not None and src is not None and src._protocol_paused and not src._conn_lost:
                # the network took bytes: the sender's transport may resume its protocol (on its own loop)
                src._loop._inbox.append(src._maybe_resume_protocol)
            if src is not None and getattr(src, "_close_when_drained", False):
                src._drained_or_dead()
            self._deliver_bytes(conn, p, dst, frag)
            if n < len(frag) + len(p.buf):
                self.stats["net_fragments"] += 1
            return
        if p.fin:
            p.fin = False
            p.dead = True
            if dst._sock_closed:
                return
            dst.rx_fin = True
            self.stats["net_fin_delivered"] += 1
            self.world.note(f"net fin {p.label}")

    def _deliver_bytes(self, conn, p, dst, frag):
        if not frag:
            return
        p.delivered += len(frag)
        self.world.note(f"net {p.label} {len(frag)}")
        self.stats["net_deliveries"] += 1
        if dst._sock_closed:
            # data for a closed socket: RST back to the sender
            src = p.src
            p.buf.clear()
            p.dead = True
            if src is not None and not src._conn_lost and src.rx_err is None:
                src.rx_err = ConnectionResetError(104, "Connection reset by peer")
                self.stats["net_rst_on_closed"] += 1
            return
        dst.rx += frag
        if self.on_deliver is not None:
            self.on_deliver(conn, p, frag)

    def _kill(self, conn, kind, cut_pipe=None):
        """Sever the connection (fault): both ends observe FIN or RST."""
        conn.cut = True
        self.stats[f"net_cut_{kind}"] += 1
        self.world.note(f"net cut c{conn.cid} {kind}")
        unsent = [bool(p.buf) for p in conn.pipes]
        for p in conn.pipes:
            p.buf.clear()
            p.fin = False
            p.dead = True
        for tr in conn.ends:
            if tr is not None and getattr(tr, "_close_when_drained", False):
                tr._drained_or_dead()
        for tr in conn.ends:
            if tr is None or tr._conn_lost:
                continue
            if kind == "timeout":
                # the peer (or the path to it) went silent: the kernel gives up after its retransmissions / keep-alive
                # probes and reports ETIMEDOUT - an OSError that is neither a reset nor an EOF
                if tr.rx_err is None:
                    tr.rx_err = TimeoutError(110, "Connection timed out")
            elif kind == "rst" or unsent[tr.side] or tr._protocol_paused:
                # an end that still had bytes to send (or is paused in drain()) learns of the loss through
                # a reset when its kernel retransmits into the dead connection - a bare FIN would leave a
                # paused writer suspended for ever, which no real TCP peer does
                if tr.rx_err is None:
                    tr.rx_err = ConnectionResetError(104, "Connection reset by peer")
            else:
                tr.rx_fin = True
        conn.state = "cut"

    # ---- fault helpers --------------------------------------------------------
    def cut_now(self, conn, kind):
        if conn.state == "open":
            self._kill(conn, kind)

    def quiet(self):
        """No bytes in flight and no connect pending."""
        return not self._enabled()
