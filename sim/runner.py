"""Runner shared by all checks: seeded parallel search, known-finding filtering, tape
shrinking, replay files verified in a fresh process, and the evidence file.

Exit codes: 0 property held (KNOWN-FINDING lines allowed), 1 violation (VIOLATION line, only
after the minimised tape reproduced in a fresh process), 3 harness error / timeout (never a
VIOLATION line).
"""
import argparse
import collections
import concurrent.futures
import faulthandler
import gc
import importlib
import json
import multiprocessing
import os
import subprocess
import sys
import time
import traceback

from .chooser import Chooser, derive_seed
from .world import ActorStuck

VERIF = os.path.dirname(os.path.dirname(os.path.abspath(__file__)))
PY = sys.executable
KNOWN_FILE = os.path.join(VERIF, "known_findings.json")
NPROC = int(os.environ.get("VERIF_PROCS", "0")) or min(16, os.cpu_count() or 4)


class _Sink:
    def write(self, s):
        return len(s)

    def flush(self):
        pass

    def isatty(self):
        return False


def quiet_process():
    import logging
    import warnings
    warnings.simplefilter("ignore")
    logging.disable(logging.CRITICAL)
    sys.stdout = _Sink()
    sys.stderr = _Sink()


def ensure_env_with(prop):
    """Re-exec once with a fixed hash seed and no bytecode writing, so that a run is a pure
    function of VERIF_SEED and the source tree."""
    if os.environ.get("PYTHONHASHSEED") is None or os.environ.get("VERIF_REEXEC") != "1":
        env = dict(os.environ)
        env.setdefault("PYTHONHASHSEED", "0")
        env["VERIF_REEXEC"] = "1"
        env["PYTHONDONTWRITEBYTECODE"] = "1"
        env["PYTHONWARNINGS"] = "ignore"
        argv = [PY, os.path.join(VERIF, "check"), prop] + sys.argv[1:]
        os.execve(PY, argv, env)


def ensure_env():
    pass


def assert_repo_tree():
    import klongpy
    root = os.environ.get("VERIF_REPO", "/repo")
    f = os.path.realpath(klongpy.__file__)
    if not f.startswith(os.path.realpath(root) + os.sep):
        raise SystemExit(f"HARNESS-ERROR klongpy imported from {f}, expected under {root}")


def load_known(prop):
    try:
        data = json.load(open(KNOWN_FILE))
    except FileNotFoundError:
        return {}
    out = {}
    for e in data.get("findings", []):
        if e.get("property") == prop and e.get("status") == "known":
            out[e["signature"]] = e
    return out


# ------------------------------------------------------------------ workers
_worker_mod = None
_poisoned = False


def _worker_init(modname, repo):
    global _worker_mod
    faulthandler.enable(file=open(os.devnull, "w"))
    if repo and repo not in sys.path:
        sys.path.insert(0, repo)
    quiet_process()
    _worker_mod = importlib.import_module(modname)
    if hasattr(_worker_mod, "setup_worker"):
        _worker_mod.setup_worker()
    # everything imported so far is permanent: keep it out of the per-run collections (see run_one)
    gc.collect()
    gc.freeze()


def run_one(mod, cfgname, cfg, seed=None, tape=None):
    ch = Chooser(seed=seed, tape=tape)
    # The cyclic garbage collector runs only here, between runs: inside a run its timing would depend on the
    # allocation history of the worker process, and finalizers (asyncio async-generator hooks, coroutine close,
    # transport __del__) can schedule work on a loop - a source of nondeterminism that one run in ~1300 showed.
    gc.disable()
    gc.collect()
    t0 = time.time()
    global _poisoned
    try:
        if _poisoned:
            raise RuntimeError("worker skipped: an earlier run left a spinning thread behind")
        from . import simfs as _simfs
        del _simfs.UNSUPPORTED[:]
        out = mod.scenario(ch, dict(cfg))
        if _simfs.UNSUPPORTED:
            out = {"harness_error": f"the simulated file system lacks: {sorted(set(_simfs.UNSUPPORTED))} (the code under test asked for it)",
                   "violations": []}
    except ActorStuck as e:
        _poisoned = True            # the stuck thread keeps a core busy: this worker runs nothing more
        if e.where is not None:
            # a busy loop inside the code under test: whoever waits for that thread waits for ever
            out = {"violations": [{"sig": f"{mod.PROPERTY}:livelock:{e.where}",
                                   "msg": f"thread {e.actor} spins inside the code under test without ever reaching a scheduling point: {e.stack}"}],
                   "stats": {"probe_livelock_detected": 1}, "sample": {"livelock": e.stack}, "tail": []}
        else:
            out = {"harness_error": f"ActorStuck: {e}", "violations": []}
    except Exception as e:   # harness failure, not a property violation
        out = {"harness_error": f"{type(e).__name__}: {e}\n{traceback.format_exc()}", "violations": []}
    out["wall"] = time.time() - t0
    out["tape"] = ch.used_tape()
    out["cfgname"] = cfgname
    out["seed"] = seed
    return out


def _chunk(modname, cfgname, cfg, base_seed, indices, want_samples):
    mod = _worker_mod
    agg = {
        "runs": 0, "evaluations": 0, "stats": collections.Counter(), "digests": set(),
        "nontrivial": set(), "states": set(), "scheds": set(), "sim_time": 0.0, "steps": 0,
        "violations": [], "harness_errors": [], "samples": [], "wall": 0.0, "cfgname": cfgname,
    }
    for i in indices:
        if _poisoned:
            agg.setdefault("skipped", 0)
            agg["skipped"] += 1
            continue
        seed = derive_seed(base_seed, mod.PROPERTY + ":" + cfgname, i)
        out = run_one(mod, cfgname, cfg, seed=seed)
        agg["runs"] += 1
        agg["evaluations"] += out.get("evaluations", 1)
        agg["wall"] += out["wall"]
        if out.get("harness_error"):
            agg["harness_errors"].append({"index": i, "seed": seed, "error": out["harness_error"]})
            continue
        bad_keys = [k for k in out.get("stats", {}) if not isinstance(k, str)]
        if bad_keys:
            agg["harness_errors"].append({"index": i, "seed": seed, "error": f"counter keys must be strings: {bad_keys[:3]}"})
            continue
        agg["stats"].update(out.get("stats", {}))
        d = out.get("digest")
        if d is not None:
            agg["digests"].add(d[:16])
            if out.get("nontrivial"):
                agg["nontrivial"].add(d[:16])
        for d in out.get("nontrivial_keys", ()):   # enumeration checks report per-case keys
            agg["nontrivial"].add(d)
        s = out.get("sched")
        if s is not None:
            agg["scheds"].add(s[:16])
        agg["states"].update(out.get("state_keys", ()))
        agg["sim_time"] += out.get("sim_time", 0.0)
        agg["steps"] += out.get("steps", 0)
        if out.get("violations"):
            agg["violations"].append({
                "index": i, "seed": seed, "tape": out["tape"], "violations": out["violations"][:6],
                "sample": out.get("sample"), "tail": out.get("tail", [])[-60:],
            })
        if len(agg["samples"]) < want_samples and out.get("sample") is not None:
            agg["samples"].append(out["sample"])
        if os.environ.get("VERIF_DUMP_DIGESTS"):
            # determinism self-test: one line per run that captures everything the run decided
            import hashlib
            blob = json.dumps([out.get("digest"), out.get("sched"), out.get("evaluations", 1), sorted(out.get("stats", {}).items()),
                               [v["sig"] for v in out.get("violations", [])], out.get("steps", 0), repr(out.get("sim_time", 0.0)),
                               out.get("sample"), len(out["tape"])], sort_keys=True, default=str)
            agg.setdefault("run_digests", []).append((cfgname, i, hashlib.sha256(blob.encode()).hexdigest()[:24]))
    return agg


def _has_sig(out, sig):
    return any(v["sig"] == sig for v in out.get("violations", []))


def _shrink(modname, cfgname, cfg, tape, sig, budget_s, max_evals):
    """ddmin-style tape reduction keeping 'a violation with the same signature'."""
    mod = _worker_mod
    t_end = time.time() + budget_s
    evals = 0
    best = list(tape)

    def ok(t):
        nonlocal evals
        evals += 1
        out = run_one(mod, cfgname, cfg, tape=t)
        if _has_sig(out, sig):
            return out["tape"]
        return None

    r = ok(best)
    if r is None:
        return {"tape": best, "evals": evals, "reproduced": False}
    best = r
    while best and best[-1] == 0:
        best.pop()
    improved = True
    while improved and time.time() < t_end and evals < max_evals:
        improved = False
        # 1. delete chunks
        n = len(best)
        size = max(1, n // 2)
        while size >= 1 and time.time() < t_end and evals < max_evals:
            i = 0
            while i < len(best) and time.time() < t_end and evals < max_evals:
                cand = best[:i] + best[i + size:]
                r = ok(cand)
                if r is not None and len(r) <= len(cand) + 0 and sum(1 for x in r if x) <= sum(1 for x in best if x):
                    best = r
                    while best and best[-1] == 0:
                        best.pop()
                    improved = True
                else:
                    i += size
            size //= 2
        # 2. zero chunks
        size = max(1, len(best) // 2)
        while size >= 1 and time.time() < t_end and evals < max_evals:
            i = 0
            while i < len(best) and time.time() < t_end and evals < max_evals:
                if any(best[i:i + size]):
                    cand = best[:i] + [0] * len(best[i:i + size]) + best[i + size:]
                    r = ok(cand)
                    if r is not None:
                        best = cand
                        improved = True
                i += size
            size //= 2
        # 3. lower single values
        for i in range(len(best)):
            if time.time() >= t_end or evals >= max_evals:
                break
            v = best[i]
            while v > 0:
                nv = v // 2
                cand = best[:i] + [nv] + best[i + 1:]
                r = ok(cand)
                if r is None:
                    break
                best = cand
                v = nv
                improved = True
        while best and best[-1] == 0:
            best.pop()
    return {"tape": best, "evals": evals, "reproduced": True}


# -------------------------------------------------------------------- driver
def _pool(modname, nproc):
    ctx = multiprocessing.get_context("fork")
    repo = os.environ.get("VERIF_REPO", "/repo")
    return concurrent.futures.ProcessPoolExecutor(max_workers=nproc, mp_context=ctx,
                                                  initializer=_worker_init, initargs=(modname, repo))


def write_replay(path, mod, cfgname, cfg, seed, tape, v, sample, tail, shrunk):
    os.makedirs(os.path.dirname(path), exist_ok=True)
    with open(path, "w") as f:
        json.dump({"property": mod.PROPERTY, "module": mod.__name__, "config": cfgname, "cfg": cfg,
                   "seed": seed, "tape": tape, "sig": v["sig"], "msg": v["msg"], "sample": sample,
                   "tail": tail, "shrunk": shrunk}, f, indent=1, default=str)


def do_replay(mod, path):
    rep = json.load(open(path))
    _worker_init(mod.__name__, os.environ.get("VERIF_REPO", "/repo"))
    real_out = sys.__stdout__
    out = run_one(mod, rep["config"], rep["cfg"], tape=rep["tape"])
    known = load_known(mod.PROPERTY)
    if out.get("harness_error"):
        real_out.write("HARNESS-ERROR " + out["harness_error"] + "\n")
        return 3
    rc = 0
    for v in out.get("violations", []):
        if v["sig"] in known:
            real_out.write(f"KNOWN-FINDING: property={mod.PROPERTY} {known[v['sig']]['what_fails']}\n")
        else:
            real_out.write(f"violation sig={v['sig']} msg={v['msg']}\n")
            rc = 1
    if rc == 1:
        real_out.write(f"VIOLATION property={mod.PROPERTY} replay={path}\n")
    else:
        real_out.write("replay: no (unlisted) violation\n")
    real_out.flush()
    return rc


def main(mod):
    ensure_env()
    ap = argparse.ArgumentParser()
    ap.add_argument("--tier", default=os.environ.get("VERIF_TIER", "quick"))
    ap.add_argument("--seed", type=int, default=int(os.environ.get("VERIF_SEED", "0") or 0))
    ap.add_argument("--replay")
    ap.add_argument("--scale", type=float, default=float(os.environ.get("VERIF_SCALE", "1")))
    ap.add_argument("--procs", type=int, default=NPROC)
    ap.add_argument("--no-evidence", action="store_true")
    ap.add_argument("--evidence-dir", default=os.path.join(VERIF, "evidence"))
    ap.add_argument("--config", help="run only this configuration")
    args = ap.parse_args()
    if args.tier not in ("quick", "thorough"):
        args.tier = "quick"
    repo = os.environ.get("VERIF_REPO", "/repo")
    if repo not in sys.path:
        sys.path.insert(0, repo)
    assert_repo_tree()
    if args.replay:
        sys.exit(do_replay(mod, args.replay))
    sys.exit(search(mod, args))


def search(mod, args):
    t0 = time.time()
    prop = mod.PROPERTY
    plan = mod.plan(args.tier)      # list of (cfgname, cfg, nruns, chunk)
    if args.config:
        plan = [p for p in plan if p[0] == args.config]
    known = load_known(prop)
    wall_cap = getattr(mod, "WALL_CAP", {"quick": 240, "thorough": 3600})[args.tier] * max(1.0, args.scale)
    total = collections.defaultdict(lambda: {
        "runs": 0, "evaluations": 0, "stats": collections.Counter(), "digests": set(), "nontrivial": set(),
        "states": set(), "scheds": set(), "sim_time": 0.0, "steps": 0, "wall": 0.0, "samples": []})
    violations = []
    harness_errors = []
    planned = 0
    truncated = False
    stopped_early = False
    # Time budget: the planned number of runs is what an unloaded 16-core machine does well inside the budget.  On a
    # slower or busy machine the search stops handing out work when the budget is used up (the chunks of all
    # configurations are interleaved, so every configuration gets its share), finishes the chunks that are running and
    # judges what was executed; the evidence says so (budget_reached, runs done vs planned).  The hard cap below is for
    # a search that does not come back at all - that is a harness error, never a verdict.
    budget = float(os.environ.get("VERIF_BUDGET_S", 0)) or wall_cap * (0.6 if args.tier == "quick" else 0.8)
    budget_reached = False
    with _pool(mod.__name__, args.procs) as pool:
        futs = []
        per_cfg = []
        for cfgname, cfg, nruns, chunk in plan:
            nruns = max(1, int(nruns * args.scale))
            planned += nruns
            per_cfg.append([(cfgname, cfg, list(range(start, min(nruns, start + chunk))), 2 if start == 0 else 0)
                            for start in range(0, nruns, chunk)])
        longest = max(len(c) for c in per_cfg)
        for j in range(longest):
            for chunks in per_cfg:
                # proportional interleaving: configuration c hands out its j-th share of chunks
                lo, hi = j * len(chunks) // longest, (j + 1) * len(chunks) // longest
                for cfgname, cfg, idx, keep in chunks[lo:hi]:
                    futs.append(pool.submit(_chunk, mod.__name__, cfgname, cfg, args.seed, idx, keep))
        try:
            for f in concurrent.futures.as_completed(futs, timeout=wall_cap):
                if f.cancelled():
                    continue
                if not budget_reached and time.time() - t0 > budget:
                    budget_reached = True
                    for g in futs:
                        g.cancel()          # only chunks that have not started are dropped
                agg = f.result()
                t = total[agg["cfgname"]]
                for k in ("runs", "evaluations", "sim_time", "steps", "wall"):
                    t[k] += agg[k]
                t["stats"].update(agg["stats"])
                for k in ("digests", "nontrivial", "states", "scheds"):
                    t[k] |= agg[k]
                t["samples"].extend(agg["samples"])
                if agg.get("run_digests"):
                    with open(os.environ["VERIF_DUMP_DIGESTS"], "a") as df:
                        for cfgn, idx, dg in agg["run_digests"]:
                            df.write(f"{cfgn} {idx} {dg}\n")
                for v in agg["violations"]:
                    v["cfgname"] = agg["cfgname"]
                    violations.append(v)
                harness_errors.extend(agg["harness_errors"])
                n_new = sum(1 for v in violations if any(x["sig"] not in known for x in v["violations"]))
                if n_new >= 12 or harness_errors:
                    # the verdict is settled: do not burn the rest of the budget (queued chunks are
                    # dropped, running ones finish); the evidence reports the runs actually done
                    stopped_early = True
                    for g in futs:
                        g.cancel()
                    break
        except concurrent.futures.TimeoutError:
            truncated = True
            for f in futs:
                f.cancel()
        except concurrent.futures.process.BrokenProcessPool as e:
            print(f"HARNESS-ERROR worker process died: {e}")
            return 3

        if harness_errors:
            print(f"HARNESS-ERROR {len(harness_errors)} run(s) failed inside the harness; first:")
            print(harness_errors[0]["error"])
            return 3
        if truncated:
            for p in list(pool._processes.values()):
                try:
                    p.kill()
                except Exception:
                    pass
            print(f"HARNESS-ERROR wall cap of {wall_cap}s hit before the planned runs finished")
            return 3

        # ---- classify violations by signature
        cfgs = {p[0]: p[1] for p in plan}
        by_sig = collections.OrderedDict()
        for v in sorted(violations, key=lambda v: (v["cfgname"], v["index"])):
            for viol in v["violations"]:
                by_sig.setdefault(viol["sig"], []).append((v, viol))
        known_hit = collections.OrderedDict()
        new = collections.OrderedDict()
        for sig, lst in by_sig.items():
            (known_hit if sig in known else new)[sig] = lst
        for sig, lst in known_hit.items():
            print(f"KNOWN-FINDING: property={prop} {known[sig]['what_fails']} [sig={sig}; {len(lst)} run(s)]")

        # ---- shrink and confirm new ones
        confirmed = []
        unconfirmed = []
        for n, (sig, lst) in enumerate(list(new.items())[:4]):
            lst.sort(key=lambda x: len(x[0]["tape"]))
            # A run may have depended on something an EARLIER run left behind in its worker process (a module-level cache in the
            # code under test): its tape alone then does not reproduce.  Try the next candidates of the same signature before
            # giving up; only a replay that fails again in a fresh process is reported.
            last = None
            for cand, (v, viol) in enumerate(lst[:6]):
                cfg = cfgs[v["cfgname"]]
                budget = 40 if args.tier == "quick" else 180
                try:
                    if ":livelock:" in sig:
                        raise RuntimeError("not shrunk: every evaluation of a livelock costs the full step limit")
                    sh = pool.submit(_shrink, mod.__name__, v["cfgname"], cfg, v["tape"], sig, budget, 3000).result(
                        timeout=budget + 120)
                except Exception as e:
                    sh = {"tape": v["tape"], "evals": 0, "reproduced": True, "error": str(e)}
                path = os.path.join(os.environ.get("VERIF_REPLAY_DIR") or os.path.join(VERIF, "replays"),
                                    f"{prop}-{args.seed}-{n}.json")
                write_replay(path, mod, v["cfgname"], cfg, v["seed"], sh["tape"], viol, v["sample"], v["tail"],
                             {"from": len(v["tape"]), "to": len(sh["tape"]), "evals": sh["evals"], "candidate": cand})
                # confirm in a fresh process
                env = dict(os.environ)
                try:
                    cp = subprocess.run([PY, os.path.join(VERIF, "check"), prop, "--replay", path],
                                        capture_output=True, text=True, timeout=600, env=env, cwd=VERIF)
                    ok = cp.returncode == 1 and f"sig={sig}" in cp.stdout
                except subprocess.TimeoutExpired:
                    ok = False
                    cp = None
                if not ok:
                    # fall back to the unshrunk tape before giving up
                    write_replay(path, mod, v["cfgname"], cfg, v["seed"], v["tape"], viol, v["sample"], v["tail"],
                                 {"from": len(v["tape"]), "to": len(v["tape"]), "evals": 0, "note": "shrunk tape did not replay", "candidate": cand})
                    try:
                        cp = subprocess.run([PY, os.path.join(VERIF, "check"), prop, "--replay", path],
                                            capture_output=True, text=True, timeout=600, env=env, cwd=VERIF)
                        ok = cp.returncode == 1 and f"sig={sig}" in cp.stdout
                    except subprocess.TimeoutExpired:
                        ok = False
                last = (sig, path, viol)
                if ok:
                    confirmed.append((sig, path, viol, len(lst), sh))
                    break
            else:
                if last is not None:
                    unconfirmed.append(last)

    wall = time.time() - t0
    args.budget_info = {"time_budget_s": round(budget, 1), "time_budget_reached": budget_reached, "stopped_early_on_violations": stopped_early}
    if budget_reached:
        done = sum(t["runs"] for t in total.values())
        print(f"note: time budget of {budget:.0f}s used up after {done} of {planned} planned runs; the verdict is for the runs executed")
    if not args.no_evidence:
        write_evidence(mod, args, total, planned, wall, known_hit, confirmed, unconfirmed)
    runs = sum(t["runs"] for t in total.values())
    print(f"{prop} tier={args.tier} seed={args.seed} runs={runs} evaluations={sum(t['evaluations'] for t in total.values())} "
          f"wall={wall:.1f}s known={len(known_hit)} new={len(new)}")
    for sig, path, viol, n, sh in confirmed:
        print(f"violation sig={sig} runs={n} msg={viol['msg']}")
        print(f"VIOLATION property={prop} replay={path}")
    if unconfirmed:
        for sig, path, viol in unconfirmed:
            print(f"HARNESS-ERROR violation did not reproduce in a fresh process: sig={sig} msg={viol['msg']} file={path}")
        if not confirmed:
            return 3
    if len(new) > 4:
        print(f"note: {len(new) - 4} further distinct signature(s) not minimised: {list(new)[4:10]}")
    return 1 if confirmed else 0


def write_evidence(mod, args, total, planned, wall, known_hit, confirmed, unconfirmed):
    prop = mod.PROPERTY
    runs = sum(t["runs"] for t in total.values())
    evals = sum(t["evaluations"] for t in total.values())
    stats = collections.Counter()
    per_cfg = {}
    nontriv = set()
    digests = set()
    states = set()
    scheds = set()
    samples = []
    for name, t in total.items():
        stats.update(t["stats"])
        nontriv |= {name + ":" + d for d in t["nontrivial"]}
        digests |= {name + ":" + d for d in t["digests"]}
        states |= t["states"]
        scheds |= t["scheds"]
        samples.extend(t["samples"][:2])
        per_cfg[name] = {"runs": t["runs"], "evaluations": t["evaluations"], "distinct_digests": len(t["digests"]),
                         "distinct_nontrivial": len(t["nontrivial"]), "sim_seconds": round(t["sim_time"], 3),
                         "scheduler_steps": t["steps"], "cpu_seconds": round(t["wall"], 2)}
    faults = {k: v for k, v in sorted(stats.items()) if k.startswith(("fault_", "net_", "fs_", "crash_"))}
    probes = {k: v for k, v in sorted(stats.items()) if k.startswith("probe_")}
    other = {k: v for k, v in sorted(stats.items()) if k not in faults and k not in probes}
    under = [k for k in getattr(mod, "EXPECTED_PROBES", []) if stats.get(k, 0) == 0]
    cov = {
        "evaluations": int(evals),
        "distinct_nontrivial": int(len(nontriv)),
        "rule": mod.RULE,
        "samples": samples[:6] or ["(no sample recorded)"],
        "simulated_runs": runs,
        "planned_runs": planned,
        "runs_per_hour": round(runs / wall * 3600) if wall > 0 else 0,
        "evaluations_per_hour": round(evals / wall * 3600) if wall > 0 else 0,
        "simulated_seconds_covered": round(sum(t["sim_time"] for t in total.values()), 3),
        "scheduler_steps": sum(t["steps"] for t in total.values()),
        "distinct_run_digests": len(digests),
        "distinct_schedules": len(scheds),
        "distinct_abstract_states": len(states),
        "faults_fired": faults,
        "probes": probes,
        "counters": other,
        "under_covered_probes": under,
        "per_configuration": per_cfg,
        "components": getattr(mod, "REAL_STUB", {}),
        "known_findings_seen": {sig: len(lst) for sig, lst in known_hit.items()},
        "worker_processes": args.procs,
    }
    cov.update(getattr(args, "budget_info", {}))
    if getattr(mod, "EXHAUSTIVE_NOTE", None):
        cov["enumeration"] = mod.EXHAUSTIVE_NOTE
    ev = {
        "property_id": prop, "tier": args.tier, "seed": args.seed, "level": mod.LEVEL,
        "coverage": cov, "assumptions": getattr(mod, "ASSUMPTIONS", []), "wall_s": round(wall, 2),
        "violations": len(confirmed),
    }
    os.makedirs(args.evidence_dir, exist_ok=True)
    with open(os.path.join(args.evidence_dir, f"{prop}.json"), "w") as f:
        json.dump(ev, f, indent=1, default=str)
    for k in under:
        print(f"UNDER-COVERED probe {k} stayed at 0")
