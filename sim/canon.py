"""Canonical form of Klong values for oracle comparisons: kind tag + recursive structure;
numpy scalars by value and integer/real kind; KLONG_UNDEFINED by identity."""
import math


def canon(v, _depth=0):
    import numpy as np
    from klongpy.core import KGSym, KGChar, KGFn, KGLambda, KLONG_UNDEFINED
    from klongpy.types import KGUndefined, KGFnWrapper
    if _depth > 40:
        return ("deep",)
    if v is KLONG_UNDEFINED:
        return ("undef",)
    if isinstance(v, KGUndefined):
        return ("undef-copy",)      # a second undefined marker: no longer tests as undefined
    if v is None:
        return ("none",)
    if isinstance(v, (bool, np.bool_)):
        return ("i", int(v))
    if isinstance(v, (int, np.integer)):
        return ("i", int(v))
    if isinstance(v, (float, np.floating)):
        f = float(v)
        if math.isnan(f):
            return ("r", "nan")
        return ("r", repr(f))
    if isinstance(v, KGChar):
        return ("c", str(v))
    if isinstance(v, KGSym):
        return ("s", str(v))
    if isinstance(v, str):
        return ("S", str(v))
    if isinstance(v, np.ndarray):
        if v.ndim == 0:
            return canon(v.item(), _depth + 1)
        return ("L", tuple(canon(x, _depth + 1) for x in v))
    if isinstance(v, (list, tuple)):
        return ("L", tuple(canon(x, _depth + 1) for x in v))
    if isinstance(v, dict):
        items = [(canon(k, _depth + 1), canon(x, _depth + 1)) for k, x in v.items()]
        return ("D", tuple(sorted(items, key=repr)))
    if isinstance(v, KGFnWrapper):
        return canon(v.fn, _depth + 1)
    if isinstance(v, KGFn):
        return ("fn", int(v.arity))
    if isinstance(v, KGLambda):
        try:
            return ("fn", int(v.get_arity()))
        except Exception:
            return ("fn", "?")
    try:
        import torch
        if isinstance(v, torch.Tensor):
            return ("tensor", bool(v.requires_grad), canon(v.detach().cpu().numpy(), _depth + 1))
    except Exception:
        pass
    arity = getattr(v, "arity", None)
    if arity is not None and type(v).__name__ == "KGRemoteFnRef":
        return ("fn", int(arity))
    if callable(v):
        return ("pyfn", type(v).__name__)
    return ("py", type(v).__name__, repr(v)[:80])


def show(v):
    """Short printable form for messages/samples."""
    try:
        s = repr(canon(v))
    except Exception as e:   # noqa
        s = f"<uncanon {type(v).__name__}: {e}>"
    return s if len(s) <= 160 else s[:157] + "..."
