"""Seams for klongpy.db.file_cache taken from the harness: SimFS for open/os, a virtual
time_ns, SimLock/SimExecutor for the cache instance (or a lazy single-thread executor for
offline re-opening of crash images)."""
import concurrent.futures

from .world import SimExecutor, SimLock


class VTime:
    def __init__(self):
        self.n = 1000

    def time_ns(self):
        self.n += 1
        return self.n

    def time(self):
        self.n += 1
        return self.n / 1e9


class LazyFuture:
    """Future that runs its task on first result()/exception() - for strictly sequential,
    single-threaded use of FileCache without any thread."""

    def __init__(self, fn, args):
        self._fn = fn
        self._args = args
        self._done = False
        self._res = None
        self._exc = None

    def _run(self):
        if not self._done:
            try:
                self._res = self._fn(*self._args)
            except BaseException as e:   # noqa
                self._exc = e
            self._done = True

    def done(self):
        return self._done

    def result(self, timeout=None):
        self._run()
        if self._exc is not None:
            raise self._exc
        return self._res

    def exception(self, timeout=None):
        self._run()
        return self._exc


class LazyExecutor:
    def submit(self, fn, *args):
        return LazyFuture(fn, args)

    def shutdown(self, wait=True, cancel_futures=False):
        pass


def install_fs(fc_module, fs, vtime=None):
    fc_module.open = fs.open
    fc_module.os = fs.os
    fc_module.shutil = fs.shutil
    fc_module.time = vtime or VTime()
    # the store layer above the cache does no file-system work of its own today; should it start to (a clean-up pass
    # on open, a marker file, ...), that work must meet the same simulated disk
    import sys
    import importlib
    try:
        importlib.import_module("klongpy.db.helpers")
    except Exception:
        pass
    for name, mod in list(sys.modules.items()):
        # every module of the store layer (also helper modules a change may start to do file work in)
        if name.startswith("klongpy.db.") and mod is not None and mod is not fc_module:
            mod.os = fs.os
            mod.open = fs.open
            mod.shutil = fs.shutil


def sim_cache(cache, world):
    """Replace the lock and executor of a FileCache instance by simulated ones."""
    try:
        cache.executor.shutdown(wait=False)
    except Exception:
        pass
    cache.file_futures_lock = SimLock(world, "cachelock")
    cache.executor = SimExecutor(world, "w")
    return cache


def lazy_cache(cache):
    try:
        cache.executor.shutdown(wait=False)
    except Exception:
        pass
    cache.executor = LazyExecutor()
    return cache
