"""World: baton-passing deterministic scheduler for real threads.

Exactly one thread (an actor or the scheduler) runs at any instant.  Actors hand the baton
back at yield points; the scheduler decides (through the Chooser) who runs next, fires
pseudo-actors (network deliveries, external events) and advances the virtual clock when
nothing is runnable.
"""
import collections
import concurrent.futures
import hashlib
import os
import sys
import threading
import time as _real_time

_tls = threading.local()

WALL_STEP_LIMIT = float(os.environ.get("VERIF_STEP_LIMIT", "150"))   # a single grant must come back within this many
#   real seconds (generous: the machine may be heavily over-subscribed); see ActorStuck for what happens otherwise


class SimAbort(SystemExit):
    """Raised inside parked actors at teardown (SystemExit: passes through asyncio's
    handle/task machinery and ends a thread silently)."""


class HarnessError(Exception):
    """Something is wrong with the simulator/harness itself - never a VIOLATION."""


class ActorStuck(HarnessError):
    """An actor ran for WALL_STEP_LIMIT real seconds without reaching a scheduling point.  `where` names the
    innermost function of the code under test it was found in on two samples (None: not in that code - then it is
    a harness problem); the runner reports a busy loop in the code under test as a liveness violation."""

    def __init__(self, msg, actor, where, stack):
        super().__init__(msg)
        self.actor = actor
        self.where = where
        self.stack = stack


class Actor:
    __slots__ = ("world", "name", "kind", "thread", "sem", "state", "pred", "desc", "result",
                 "exc", "fn", "idx", "daemon_like", "preempt_ok")

    def __init__(self, world, name, kind, fn):
        self.world = world
        self.name = name
        self.kind = kind
        self.fn = fn
        self.sem = threading.Semaphore(0)
        self.state = "runnable"      # runnable | running | blocked | done
        self.pred = None
        self.desc = ""
        self.result = None
        self.exc = None
        self.thread = None
        self.idx = 0
        self.daemon_like = False     # loops: being blocked at quiescence is normal
        self.preempt_ok = True

    @property
    def done(self):
        return self.state == "done"

    def __repr__(self):
        return f"<Actor {self.name} {self.state} {self.desc}>"


def current_actor():
    return getattr(_tls, "actor", None)


TRACE_SCHED = bool(os.environ.get("VERIF_TRACE_SCHED"))    # debugging aid: scheduling decisions in the event tail


class World:
    def __init__(self, ch, max_steps=20000, max_time=None, policy=None):
        self.ch = ch
        self.now = 0.0
        self.actors = []
        self.pseudo_sources = []     # callables -> list of (label, fn) currently enabled
        self.timer_sources = []      # callables -> next timer time or None
        self.advance_hook = None     # fn(world, t) -> new now (dispatch latency policy)
        self.steps = 0
        self.switches = 0
        self.max_steps = max_steps
        self.max_time = max_time
        self._sched_sem = threading.Semaphore(0)
        self._abort = False
        self._h = hashlib.blake2b(digest_size=16)
        self._hs = hashlib.blake2b(digest_size=16)
        self.tail = collections.deque(maxlen=400)
        self.current = None
        self.stats = collections.Counter()
        self.time_jumps = 0
        self.trace_files = None      # set of filenames for line-level pre-emption
        self.preempt_budget = 0
        self.hot_funcs = {}
        self.hot_budget = 0
        self.lock_depth = 0
        # scheduling policy (swarm): 0 sticky, 1 uniform, 2 very sticky
        self.policy = ch.weighted([3, 2, 2], "policy") if policy is None else policy

    # ------------------------------------------------------------------ log
    def note(self, s):
        """Record a harness-level event in the run digest (no draws, no clocks)."""
        self._h.update(s.encode("utf-8", "replace"))
        self._h.update(b"\n")
        self.tail.append(s)

    def digest(self):
        return self._h.hexdigest()

    def sched_digest(self):
        return self._hs.hexdigest()

    # --------------------------------------------------------------- actors
    def spawn(self, name, fn, kind="caller", daemon_like=False):
        a = Actor(self, name, kind, fn)
        a.idx = len(self.actors)
        a.daemon_like = daemon_like
        self.actors.append(a)
        t = threading.Thread(target=self._boot, args=(a,), name=f"sim-{name}", daemon=True)
        a.thread = t
        t.start()
        return a

    def _boot(self, a):
        a.sem.acquire()
        _tls.actor = a
        try:
            if self._abort:
                raise SimAbort()
            if self.trace_files:
                sys.settrace(self._global_trace)
            a.result = a.fn()
        except SimAbort:
            a.exc = None
            a.desc = "aborted"
        except BaseException as e:   # noqa
            a.exc = e
        finally:
            sys.settrace(None)
            a.state = "done"
            _tls.actor = None
            self._sched_sem.release()

    # ---------------------------------------------------- line pre-emption
    def _global_trace(self, frame, event, arg):
        if frame.f_code.co_filename in self.trace_files:
            return self._local_trace
        return None

    def enable_line_preemption(self, files, budget, gap=40, hot=(), hot_budget=0):
        """Pre-empt at `line` events of the named source files: after a drawn number of
        traced lines the running actor is forced to yield, `budget` times per run.  `hot` names
        functions (co_name) inside which every line event is a drawn pre-emption chance of its own
        (1 in 3, at most `hot_budget` times per run): short critical regions - a loop over a shared
        table, a check-then-act pair - that a uniform countdown over thousands of lines almost never hits."""
        self.trace_files = set(files)
        self.preempt_budget = budget
        self._gap = gap
        self._countdown = 1 + self.ch.draw(gap, "preempt_gap") if budget > 0 else 0
        self.hot_funcs = {name: hot_budget for name in hot}     # budget per function
        self.hot_budget = hot_budget if hot else 0

    def _local_trace(self, frame, event, arg):
        if event == "line" and self.hot_budget > 0 and not self._abort and frame.f_code.co_name in self.hot_funcs:
            a = current_actor()
            if a is not None and a.preempt_ok and self.hot_funcs[frame.f_code.co_name] > 0 and self.ch.draw(3, "hot_preempt") == 2:
                self.hot_funcs[frame.f_code.co_name] -= 1
                self.stats["line_preemptions_hot"] += 1
                self.yield_point(f"preempt-hot@{frame.f_code.co_name}:{frame.f_lineno}", force_switch=True, prefer_callers=True)
                return self._local_trace
        if event == "line" and self.preempt_budget > 0 and not self._abort:
            a = current_actor()
            if a is not None and a.preempt_ok:
                self._countdown -= 1
                if self._countdown <= 0:
                    self.preempt_budget -= 1
                    self._countdown = 1 + self.ch.draw(self._gap, "preempt_gap")
                    self.stats["line_preemptions"] += 1
                    self.yield_point(f"preempt@{frame.f_code.co_name}:{frame.f_lineno}", force_switch=True)
        return self._local_trace

    # ----------------------------------------------------------- yield API
    def yield_point(self, kind, force_switch=False, prefer_callers=False):
        a = current_actor()
        if a is None:
            return
        if self._abort:
            raise SimAbort()
        a.state = "runnable"
        a.desc = kind
        self._forced = force_switch
        self._prefer_callers = prefer_callers
        self._sched_sem.release()
        a.sem.acquire()
        if self._abort:
            raise SimAbort()

    def block_until(self, pred, desc):
        a = current_actor()
        if a is None:
            if pred():
                return
            raise HarnessError(f"blocking call outside an actor: {desc}")
        if self._abort:
            raise SimAbort()
        a.state = "blocked"
        a.pred = pred
        a.desc = desc
        self._forced = False
        self._sched_sem.release()
        a.sem.acquire()
        a.pred = None
        if self._abort:
            raise SimAbort()

    # ------------------------------------------------------------ scheduler
    def _runnable(self):
        out = []
        for a in self.actors:
            if a.state == "runnable":
                out.append(a)
            elif a.state == "blocked":
                try:
                    ok = a.pred()
                except Exception as e:   # a predicate must not fail
                    raise HarnessError(f"predicate of {a.name} raised {e!r}")
                if ok:
                    out.append(a)
        return out

    def _grant(self, a):
        self.current = a
        a.state = "running"
        a.sem.release()
        if not self._sched_sem.acquire(timeout=WALL_STEP_LIMIT):
            # The actor neither finished nor reached any scheduling point: it is spinning (or computing for minutes).
            # Sample where it is: twice the same function of the code under test = a busy loop in that code.
            import traceback
            import time as _t
            frames = []
            for _ in range(5):
                fr = sys._current_frames().get(a.thread.ident)
                frames.append(traceback.extract_stack(fr) if fr is not None else [])
                _t.sleep(0.4)
            repo = os.path.realpath(os.environ.get("VERIF_REPO", "/repo"))

            def repo_frames(st):
                return [f"{os.path.basename(f.filename)}:{f.name}" for f in st if os.path.realpath(f.filename).startswith(repo + os.sep)]
            # a busy loop in the code under test: on every sample the thread is below the same function(s) of that code
            # (the innermost one may differ from sample to sample when the loop body calls several helpers)
            common = None
            for st in frames:
                names = repo_frames(st)
                common = names if common is None else [n for n in common if n in names]
            where = common[-1] if common else None
            tail = " <- ".join(f"{os.path.basename(f.filename)}:{f.name}:{f.lineno}" for f in reversed(frames[1][-6:]))
            raise ActorStuck(f"actor {a.name} did not yield within {WALL_STEP_LIMIT}s wall ({a.desc}); stack: {tail}", a.name, where, tail)

    def run(self, until=None, max_steps=None, max_time=None):
        """Run until `until()` holds, quiescence, or a cap.  Returns the reason."""
        if current_actor() is not None:
            raise HarnessError("World.run called from an actor")
        cap = self.steps + (max_steps or self.max_steps)
        tcap = max_time if max_time is not None else self.max_time
        self._forced = False
        while True:
            if until is not None and until():
                return "until"
            if self.steps >= cap:
                return "steps"
            if tcap is not None and self.now > tcap:
                return "time"
            runnable = self._runnable()
            pseudo = []
            for src in self.pseudo_sources:
                pseudo.extend(src())
            if not runnable and not pseudo:
                t = None
                for ts in self.timer_sources:
                    v = ts()
                    if v is not None and (t is None or v < t):
                        t = v
                if t is None:
                    return "quiescent"
                if self.advance_hook is not None:
                    new = self.advance_hook(self, t)
                else:
                    new = t
                if new <= self.now and t > self.now:
                    # an early landing must still make progress
                    new = max(new, self.now)
                if new < self.now:
                    new = self.now
                if new == self.now and t > self.now:
                    new = t
                self.now = new
                self.time_jumps += 1
                self.steps += 1
                if tcap is not None and self.now > tcap:
                    return "time"
                continue
            self.steps += 1
            # candidate order: current actor first (draw 0 = no context switch)
            cands = []
            cur = self.current
            if cur is not None and cur in runnable and not self._forced:
                cands.append(cur)
            for a in runnable:
                if a is not cur or self._forced:
                    if a not in cands:
                        cands.append(a)
            hot_switch = False
            if self._forced and getattr(self, "_prefer_callers", False):
                # pre-emption inside a hot region: the interesting successor is an application thread that is
                # about to enter the code under test, not one more loop iteration or a network delivery
                callers = [a for a in cands if a.kind in ("caller", "task")]
                if callers:
                    cands, pseudo, hot_switch = callers, [], True
            self._prefer_callers = False
            n_act = len(cands)
            cands.extend(pseudo)
            if len(cands) == 1:
                pick = 0
            elif hot_switch:
                pick = self.ch.draw(len(cands), "sched")
            elif self.policy == 1:
                pick = self.ch.draw(len(cands), "sched")
            else:
                w0 = 6 if self.policy == 0 else 20
                pick = self.ch.weighted([w0] + [1] * (len(cands) - 1), "sched")
            self._forced = False
            c = cands[pick]
            if pick < n_act:
                if c is not cur:
                    self.switches += 1
                self._hs.update(f"{c.name}:{c.desc};".encode())
                if TRACE_SCHED:
                    self.tail.append(f"    [{self.steps}] run {c.name}: {c.desc}")
                self._grant(c)
            else:
                label, fn = c
                self._hs.update(f"~{label};".encode())
                self.tail.append(f"~{label}")
                fn()

    def blocked_callers(self):
        return [a for a in self.actors if a.state == "blocked" and not a.daemon_like and not a.pred()]

    # ------------------------------------------------------------ teardown
    def shutdown(self):
        """Unwind every parked actor with SimAbort and join the threads."""
        self._abort = True
        leaked = 0
        for _ in range(3):
            for a in list(self.actors):
                if a.state != "done":
                    a.sem.release()
                    self._sched_sem.acquire(timeout=5.0)
            if all(a.state == "done" for a in self.actors):
                break
        for a in self.actors:
            a.thread.join(timeout=2.0)
            if a.thread.is_alive():
                leaked += 1
        return leaked


# ---------------------------------------------------------------- primitives
class SimLock:
    """threading.Lock stand-in whose acquire is a scheduling point."""

    def __init__(self, world, name="lock"):
        self.world = world
        self.name = name
        self.owner = None
        self.contended = 0

    def acquire(self, blocking=True, timeout=-1):
        w = self.world
        w.yield_point(f"{self.name}.acquire")
        if self.owner is not None:
            if not blocking:
                return False
            self.contended += 1
            w.stats[f"{self.name}_contended"] += 1
            w.block_until(lambda: self.owner is None, f"{self.name}.wait")
        self.owner = current_actor() or "setup"
        return True

    def release(self):
        if self.owner is None:
            raise RuntimeError("release unlocked lock")
        self.owner = None
        self.world.yield_point(f"{self.name}.release")

    def locked(self):
        return self.owner is not None

    def __enter__(self):
        self.acquire()
        return self

    def __exit__(self, *exc):
        # release without yielding when unwinding at teardown
        if self.world._abort:
            self.owner = None
            return False
        self.release()
        return False


class SimRLock(SimLock):
    """threading.RLock stand-in: the owner may acquire again."""

    def __init__(self, world, name="rlock"):
        super().__init__(world, name)
        self.depth = 0

    def acquire(self, blocking=True, timeout=-1):
        me = current_actor() or "setup"
        if self.owner is me:
            self.depth += 1
            return True
        ok = super().acquire(blocking, timeout)
        if ok:
            self.depth = 1
        return ok

    def release(self):
        if self.owner is None:
            raise RuntimeError("cannot release un-acquired lock")
        self.depth -= 1
        if self.depth == 0:
            super().release()

    def __exit__(self, *exc):
        if self.world._abort:
            self.owner = None
            self.depth = 0
            return False
        self.release()
        return False


class SimEvent:
    def __init__(self, world, name="event"):
        self.world = world
        self.name = name
        self._flag = False

    def is_set(self):
        return self._flag

    def set(self):
        self._flag = True

    def clear(self):
        self._flag = False

    def wait(self, timeout=None):
        w = self.world
        if current_actor() is None:
            if self._flag:
                return True
            raise HarnessError("Event.wait outside an actor")
        if not self._flag:
            w.block_until(lambda: self._flag, f"{self.name}.wait")
        else:
            w.yield_point(f"{self.name}.wait")
        return True


class SimExecutor:
    """ThreadPoolExecutor stand-in: every task is its own actor."""

    def __init__(self, world, name="task"):
        self.world = world
        self.name = name
        self.count = 0
        self.tasks = []

    def submit(self, fn, *args, **kwargs):
        fut = concurrent.futures.Future()
        self.count += 1
        label = f"{self.name}{self.count}:{getattr(fn, '__name__', 'fn')}"

        def body():
            if not fut.set_running_or_notify_cancel():
                return
            try:
                r = fn(*args, **kwargs)
            except SimAbort:
                raise
            except BaseException as e:   # noqa
                fut.set_exception(e)
            else:
                fut.set_result(r)

        a = self.world.spawn(label, body, kind="task", daemon_like=True)
        self.tasks.append((a, fut))
        self.world.yield_point("submit")
        return fut

    def shutdown(self, wait=True, cancel_futures=False):
        return None


# ------------------------------------------------------ process-wide patches
_patched = False
_orig_result = concurrent.futures.Future.result
_orig_exception = concurrent.futures.Future.exception


def _sim_result(self, timeout=None):
    a = current_actor()
    if a is not None:
        if not self.done():
            a.world.block_until(self.done, "future.result")
        else:
            a.world.yield_point("future.result")
    return _orig_result(self, timeout)


def _sim_exception(self, timeout=None):
    a = current_actor()
    if a is not None:
        if not self.done():
            a.world.block_until(self.done, "future.exception")
        else:
            a.world.yield_point("future.exception")
    return _orig_exception(self, timeout)


def install_patches():
    """Patch concurrent.futures.Future.result/exception in this (worker) process so that a
    blocking wait issued from an actor parks it in the World instead of on a condition."""
    global _patched
    if _patched:
        return
    concurrent.futures.Future.result = _sim_result
    concurrent.futures.Future.exception = _sim_exception
    _patched = True


class ThreadingShim:
    """Replacement for a module's `threading` attribute: Event/Lock become simulated, the
    rest is the real module."""

    def __init__(self, world):
        self._world = world
        import threading as _t
        self._t = _t

    def Event(self):
        return SimEvent(self._world)

    def Lock(self):
        return SimLock(self._world, "tlock")

    def RLock(self):
        return SimRLock(self._world, "trlock")

    def __getattr__(self, name):
        return getattr(self._t, name)
