"""SimFS: in-memory POSIX-style file system seam for klongpy.db.file_cache.

It sits *below* real io.BufferedWriter/BufferedReader objects (raw-I/O level), so that what
reaches "the kernel" and when - relative to fsync - is exactly what the shipped code does with
Python's user-space buffering.  Every operation is appended to a trace and is a scheduling
point when a World is attached.  Crash images are derived from a trace prefix under the
persistence model A-FS (see DESIGN.md 3.6).
"""
import errno
import io
import os as _os
import posixpath
import stat as stat_mod

# Names the code under test asked this stand-in for and it does not have.  A run that hit one is a harness error
# (the simulator, not the code, is incomplete), never a verdict: sim/runner.py checks this list after every run.
UNSUPPORTED = []


class _DirEntry:
    def __init__(self, simos, name, path):
        self._os, self.name, self.path = simos, name, path

    def is_dir(self, **k):
        return posixpath.normpath(self.path) in self._os.fs.dirs

    def is_file(self, **k):
        return posixpath.normpath(self.path) in self._os.fs.files

    def is_symlink(self):
        return False

    def stat(self, **k):
        return self._os.stat(self.path)

    def __fspath__(self):
        return self.path


class _ScanDir(list):
    def __enter__(self):
        return self

    def __exit__(self, *a):
        return False

    def close(self):
        pass


class SimRaw(io.RawIOBase):
    def __init__(self, fs, path, mode, fd):
        super().__init__()
        self.fs = fs
        self.path = path
        self.mode = mode
        self.fd = fd
        self.pos = 0
        self.append = False
        self.orphan = None       # content of an unlinked-while-open file (POSIX: the handle keeps its inode)

    def readable(self):
        return self.mode in ("r", "rw")

    def writable(self):
        return self.mode in ("w", "rw")

    def seekable(self):
        return True

    def seek(self, offset, whence=0):
        data = self.orphan if self.orphan is not None else self.fs.files.get(self.path, b"")
        base = {0: 0, 1: self.pos, 2: len(data)}[whence]
        self.pos = max(0, base + offset)
        return self.pos

    def tell(self):
        return self.pos

    def fileno(self):
        return self.fd

    def readinto(self, b):
        fs = self.fs
        fs._y("read")
        data = self.orphan if self.orphan is not None else fs.files.get(self.path)
        if data is None:
            raise OSError(errno.EIO, "file vanished")
        chunk = bytes(data[self.pos:self.pos + len(b)])
        n = len(chunk)
        b[:n] = chunk
        self.pos += n
        fs.trace.append(("read", self.path, n))
        return n

    def truncate(self, size=None):
        """ftruncate: cut (or zero-extend) the file at `size` (default: the current position)."""
        fs = self.fs
        if not self.writable():
            raise io.UnsupportedOperation("truncate")
        fs._y("ftruncate")
        n = self.pos if size is None else size
        fs._fault("write", self.path)
        target = self.orphan if self.orphan is not None else fs.files.get(self.path)
        if target is None:
            raise OSError(errno.EIO, "file vanished")
        if n <= len(target):
            del target[n:]
        else:
            target.extend(b"\0" * (n - len(target)))
        if self.orphan is None:
            fs.trace.append(("ftrunc", self.path, n))
            fs._touch(self.path)
        return n

    def write(self, b):
        fs = self.fs
        fs._y("write")
        data = bytes(b)
        fs._fault("write", self.path)
        if self.append and self.orphan is None and self.path in fs.files:
            self.pos = len(fs.files[self.path])         # O_APPEND: every write goes to the current end
        if fs.short_write_hook is not None and len(data) > 1:
            # a short write(2): the kernel takes only part of the buffer (disk nearly full, quota, signal); the caller
            # must look at the count and write the rest - io.BufferedWriter does
            k = fs.short_write_hook(self.path, len(data))
            if k is not None and 0 < k < len(data):
                data = data[:k]
        if self.orphan is not None:
            # the name was removed while this handle was open: the bytes go to an inode no name refers to any more
            self.orphan[self.pos:self.pos + len(data)] = data
            fs.trace.append(("owrite", self.path, self.pos, data))
            self.pos += len(data)
            return len(data)
        f = fs.files.get(self.path)
        if f is None:
            raise OSError(errno.EIO, "file vanished")
        if self.pos > len(f):
            f.extend(b"\0" * (self.pos - len(f)))       # a hole
        f[self.pos:self.pos + len(data)] = data
        fs.trace.append(("write", self.path, self.pos, data))
        fs._touch(self.path)
        self.pos += len(data)
        return len(data)

    def close(self):
        if not self.closed:
            fs = self.fs
            try:
                super().close()
            finally:
                fs.fds.pop(self.fd, None)
                fs.rawfds.pop(self.fd, None)
                fs.trace.append(("close", self.path))
                fs._y("close", teardown_ok=True)


class SimPath:
    def __init__(self, fs):
        self.fs = fs

    join = staticmethod(posixpath.join)
    dirname = staticmethod(posixpath.dirname)
    basename = staticmethod(posixpath.basename)
    normpath = staticmethod(posixpath.normpath)
    sep = "/"

    def exists(self, path):
        fs = self.fs
        fs._y("exists")
        p = posixpath.normpath(path)
        r = p in fs.files or p in fs.dirs
        fs.trace.append(("exists", p, r))
        return r

    def isdir(self, path):
        return posixpath.normpath(path) in self.fs.dirs

    def isfile(self, path):
        return posixpath.normpath(path) in self.fs.files

    def lexists(self, path):
        return self.exists(path)

    def islink(self, path):
        return False

    def realpath(self, path, **k):
        return posixpath.normpath(posixpath.join("/", path))

    def abspath(self, path):
        return posixpath.normpath(posixpath.join("/", path))

    def getmtime(self, path):
        return self.fs.os.stat(path).st_mtime

    getatime = getctime = getmtime

    def samefile(self, a, b):
        self.fs.os.stat(a), self.fs.os.stat(b)
        return posixpath.normpath(a) == posixpath.normpath(b)

    def __getattr__(self, name):
        # pure string functions of os.path (split, splitext, isabs, relpath, commonpath, ...)
        if name in ("split", "splitext", "isabs", "relpath", "commonpath", "commonprefix", "expanduser", "expandvars",
                    "normcase", "splitdrive", "curdir", "pardir", "extsep", "altsep", "pathsep", "devnull"):
            return getattr(posixpath, name)
        UNSUPPORTED.append(f"os.path.{name}")
        raise AttributeError(f"SimPath lacks os.path.{name}")

    def getsize(self, path):
        fs = self.fs
        fs._y("getsize")
        p = posixpath.normpath(path)
        if p in fs.files:
            n = len(fs.files[p])
        elif p in fs.dirs:
            n = 4096
        else:
            fs._enotdir(p, path)
            raise FileNotFoundError(errno.ENOENT, "No such file or directory", path)
        fs.trace.append(("getsize", p, n))
        return n


class SimOS:
    """Stand-in for the `os` module name inside klongpy.db.file_cache."""
    sep = "/"

    def __init__(self, fs):
        self.fs = fs
        self.path = SimPath(fs)

    def getcwd(self):
        return "/"

    O_RDONLY, O_WRONLY, O_RDWR, O_CREAT, O_EXCL, O_TRUNC, O_APPEND = (_os.O_RDONLY, _os.O_WRONLY, _os.O_RDWR, _os.O_CREAT,
                                                                      _os.O_EXCL, _os.O_TRUNC, _os.O_APPEND)
    O_SYNC, O_DSYNC, O_CLOEXEC, O_DIRECTORY = _os.O_SYNC, _os.O_DSYNC, _os.O_CLOEXEC, _os.O_DIRECTORY
    SEEK_SET, SEEK_CUR, SEEK_END = 0, 1, 2
    F_OK, R_OK, W_OK, X_OK = 0, 4, 2, 1
    _PURE = ("fspath", "linesep", "curdir", "pardir", "extsep", "altsep", "pathsep", "devnull", "name", "environ", "getenv",
             "getpid", "strerror", "error", "PathLike", "cpu_count", "fsencode", "fsdecode", "get_terminal_size")

    def __getattr__(self, name):
        if name in SimOS._PURE:
            return getattr(_os, name)
        UNSUPPORTED.append(f"os.{name}")
        raise AttributeError(f"SimOS lacks os.{name}")

    def kill(self, pid, sig):
        """only the existence probe (signal 0): the simulated world has one process, this one"""
        if sig != 0:
            UNSUPPORTED.append(f"os.kill(sig={sig})")
            raise PermissionError(errno.EPERM, "Operation not permitted")
        if pid == _os.getpid():
            return None
        raise ProcessLookupError(errno.ESRCH, "No such process")

    # ---- metadata
    def stat(self, path, **k):
        fs = self.fs
        fs._y("stat")
        p = posixpath.normpath(path)
        if isinstance(path, int):
            return self.fstat(path)
        if p in fs.files:
            mode, size = stat_mod.S_IFREG | 0o644, len(fs.files[p])
        elif p in fs.dirs:
            mode, size = stat_mod.S_IFDIR | 0o755, 4096
        else:
            fs._enotdir(p, path)
            raise FileNotFoundError(errno.ENOENT, "No such file or directory", path)
        if len(posixpath.basename(p).encode("utf-8", "surrogateescape")) > 255:
            raise OSError(errno.ENAMETOOLONG, "File name too long", path)
        fs.trace.append(("stat", p, size))
        t = fs.mtimes.get(p, 0)
        return _os.stat_result((mode, abs(hash(p)) % (1 << 30), 1, 1, 0, 0, size, t, t, t))

    lstat = stat

    def fstat(self, fd):
        p = self.fs.fds.get(fd)
        if p is None:
            raise OSError(errno.EBADF, "Bad file descriptor")
        raw = self.fs.rawfds.get(fd)
        if raw is not None and raw.orphan is not None:
            return _os.stat_result((stat_mod.S_IFREG | 0o644, 0, 1, 0, 0, 0, len(raw.orphan), 0, 0, 0))
        return self.stat(p)

    def access(self, path, mode, **k):
        p = posixpath.normpath(path)
        return p in self.fs.files or p in self.fs.dirs

    def mkdir(self, path, mode=0o777):
        fs = self.fs
        p = posixpath.normpath(path)
        fs._y("makedirs")
        if p in fs.files or p in fs.dirs:
            raise FileExistsError(errno.EEXIST, "File exists", path)
        parent = posixpath.dirname(p)
        if parent not in fs.dirs:
            fs._enotdir(p, path)
            raise FileNotFoundError(errno.ENOENT, "No such file or directory", path)
        fs._fault("mkdir", p)
        fs.dirs.add(p)
        fs.trace.append(("mkdir", p))

    def rmdir(self, path):
        fs = self.fs
        p = posixpath.normpath(path)
        fs._y("rmdir")
        if p not in fs.dirs:
            if p in fs.files:
                raise NotADirectoryError(errno.ENOTDIR, "Not a directory", path)
            fs._enotdir(p, path)
            raise FileNotFoundError(errno.ENOENT, "No such file or directory", path)
        if self.listdir(p):
            raise OSError(errno.ENOTEMPTY, "Directory not empty", path)
        fs.dirs.discard(p)
        fs.trace.append(("rmdir", p))

    def scandir(self, path="/"):
        base = posixpath.normpath(path)
        return _ScanDir([_DirEntry(self, n, posixpath.join(base, n)) for n in self.listdir(path)])

    def truncate(self, path, length):
        if isinstance(path, int):
            return self.ftruncate(path, length)
        with self.fs.open(path, "r+b", buffering=0) as raw:
            raw.truncate(length)

    # ---- descriptor-level I/O (os.open / os.write / ...)
    def open(self, path, flags, mode=0o777, **k):
        acc = flags & 3
        kind = "r"
        if flags & _os.O_CREAT:
            kind = "x" if flags & _os.O_EXCL else ("w" if flags & _os.O_TRUNC else "c")
        elif flags & _os.O_TRUNC:
            kind = "t"
        raw = self.fs._open_raw(path, kind, readable=(acc != _os.O_WRONLY), writable=(acc != _os.O_RDONLY),
                                append=bool(flags & _os.O_APPEND))
        return raw.fd

    def _raw(self, fd):
        raw = self.fs.rawfds.get(fd)
        if raw is None or raw.closed:
            raise OSError(errno.EBADF, "Bad file descriptor")
        return raw

    def write(self, fd, data):
        return self._raw(fd).write(data)

    def read(self, fd, n):
        b = bytearray(n)
        k = self._raw(fd).readinto(b)
        return bytes(b[:k])

    def pwrite(self, fd, data, offset):
        raw = self._raw(fd)
        old, raw.pos = raw.pos, offset
        try:
            return raw.write(data)
        finally:
            raw.pos = old

    def pread(self, fd, n, offset):
        raw = self._raw(fd)
        old, raw.pos = raw.pos, offset
        try:
            return self.read(fd, n)
        finally:
            raw.pos = old

    def lseek(self, fd, pos, how):
        return self._raw(fd).seek(pos, how)

    def ftruncate(self, fd, length):
        self._raw(fd).truncate(length)

    def close(self, fd):
        self._raw(fd).close()

    def fdopen(self, fd, mode="r", buffering=-1, encoding=None, errors=None, newline=None, **k):
        return self.fs._wrap(self._raw(fd), mode, buffering, encoding, errors, newline)

    def makedirs(self, path, mode=0o777, exist_ok=False):
        fs = self.fs
        p = posixpath.normpath(path)
        fs._y("makedirs")
        if p in fs.files:
            raise FileExistsError(errno.EEXIST, "File exists", path)
        if p in fs.dirs:
            if not exist_ok:
                raise FileExistsError(errno.EEXIST, "File exists", path)
            return
        parts = []
        q = p
        while q not in fs.dirs:
            if q in fs.files:
                raise NotADirectoryError(errno.ENOTDIR, "Not a directory", path)
            parts.append(q)
            q = posixpath.dirname(q)
        for q in reversed(parts):
            fs._fault("mkdir", q)
            fs.dirs.add(q)
            fs.trace.append(("mkdir", q))
            fs._y("mkdir")

    def fsync(self, fd):
        fs = self.fs
        fs._y("fsync")
        ent = fs.fds.get(fd)
        if ent is None:
            raise OSError(errno.EBADF, "Bad file descriptor")
        fs._fault("fsync", ent)
        fs.trace.append(("fsync", ent))

    def fdatasync(self, fd):
        return self.fsync(fd)

    def replace(self, src, dst):
        fs = self.fs
        fs._y("rename")
        s, d = posixpath.normpath(src), posixpath.normpath(dst)
        if s in fs.dirs:
            # a directory: the whole subtree moves (the destination must be absent or an empty directory)
            if d in fs.files:
                raise NotADirectoryError(errno.ENOTDIR, "Not a directory", dst)
            if d in fs.dirs and self.listdir(d):
                raise OSError(errno.ENOTEMPTY, "Directory not empty", dst)
            if posixpath.dirname(d) not in fs.dirs:
                fs._enotdir(d, dst)
                raise FileNotFoundError(errno.ENOENT, "No such file or directory", dst)
            if d == s or d.startswith(s + "/"):
                if d == s:
                    return
                raise OSError(errno.EINVAL, "Invalid argument", dst)
            fs._fault("rename", d)
            for q in [q for q in fs.dirs if q == s or q.startswith(s + "/")]:
                fs.dirs.discard(q)
                fs.dirs.add(d + q[len(s):])
            for q in [q for q in fs.files if q.startswith(s + "/")]:
                fs.files[d + q[len(s):]] = fs.files.pop(q)
            for fd, q in list(fs.fds.items()):
                if q.startswith(s + "/"):
                    fs.fds[fd] = d + q[len(s):]
            for raw in fs.raws:
                if raw.path.startswith(s + "/") and not raw.closed:
                    raw.path = d + raw.path[len(s):]
            fs.trace.append(("rename-dir", s, d))
            return
        if s not in fs.files:
            fs._enotdir(s, src)
            raise FileNotFoundError(errno.ENOENT, "No such file or directory", src)
        if d in fs.dirs:
            raise IsADirectoryError(errno.EISDIR, "Is a directory", dst)
        if posixpath.dirname(d) not in fs.dirs:
            fs._enotdir(d, dst)
            raise FileNotFoundError(errno.ENOENT, "No such file or directory", dst)
        fs._fault("rename", d)
        fs.files[d] = fs.files.pop(s)
        if s in fs.mtimes:
            fs.mtimes[d] = fs.mtimes.pop(s)
        for fd, p in list(fs.fds.items()):
            if p == s:
                fs.fds[fd] = d
        for raw in fs.raws:
            if raw.path == s and not raw.closed:
                raw.path = d
        fs.trace.append(("rename", s, d))

    rename = replace

    def remove(self, path):
        fs = self.fs
        fs._y("unlink")
        p = posixpath.normpath(path)
        if p in fs.dirs:
            raise IsADirectoryError(errno.EISDIR, "Is a directory", path)
        if p not in fs.files:
            fs._enotdir(p, path)
            raise FileNotFoundError(errno.ENOENT, "No such file or directory", path)
        gone = fs.files.pop(p)
        for raw in fs.raws:
            if raw.path == p and not raw.closed and raw.orphan is None:
                raw.orphan = gone
        for fd, q in list(fs.fds.items()):
            if q == p:
                fs.fds[fd] = "(unlinked)" + p       # an fsync of it concerns no named file
        fs.trace.append(("unlink", p))

    unlink = remove

    def listdir(self, path):
        p = posixpath.normpath(path)
        if p not in self.fs.dirs:
            if p in self.fs.files:
                raise NotADirectoryError(errno.ENOTDIR, "Not a directory", path)
            self.fs._enotdir(p, path)
            raise FileNotFoundError(errno.ENOENT, "No such file or directory", path)
        out = set()
        for q in list(self.fs.files) + list(self.fs.dirs):
            if q != p and posixpath.dirname(q) == p:
                out.add(posixpath.basename(q))
        return sorted(out)

    def walk(self, top):
        """os.walk, top-down (a directory that vanishes meanwhile is skipped, as os.walk does)."""
        self.fs._y("listdir")
        try:
            names = self.listdir(top)
        except OSError:
            return
        dirs = [n for n in names if posixpath.join(posixpath.normpath(top), n) in self.fs.dirs]
        files = [n for n in names if n not in dirs]
        yield top, dirs, files
        for d in dirs:
            yield from self.walk(posixpath.join(top, d))


class SimShutil:
    """shutil over the simulated disk: what a change to the store layer may plausibly start to use (removing a directory
    tree it created, moving a finished file into place).  A name it does not have is recorded as UNSUPPORTED."""

    def __init__(self, fs):
        self.fs = fs

    def __getattr__(self, name):
        UNSUPPORTED.append(f"shutil.{name}")
        raise AttributeError(f"SimShutil lacks shutil.{name}")

    def rmtree(self, path, ignore_errors=False, onerror=None, **kw):
        o = self.fs.os
        try:
            if not o.path.isdir(path):
                raise NotADirectoryError(errno.ENOTDIR, "Not a directory", path) if o.path.exists(path) else \
                    FileNotFoundError(errno.ENOENT, "No such file or directory", path)
            for top, dirs, files in list(o.walk(path))[::-1]:
                for f in files:
                    o.remove(posixpath.join(top, f))
                o.rmdir(top)
        except OSError:
            if not ignore_errors:
                raise

    def move(self, src, dst, **kw):
        if self.fs.os.path.isdir(dst):
            dst = posixpath.join(dst, posixpath.basename(posixpath.normpath(src)))
        self.fs.os.replace(src, dst)
        return dst

    def copyfile(self, src, dst, **kw):
        with self.fs.open(src, "rb") as f:
            data = f.read()
        with self.fs.open(dst, "wb") as g:
            g.write(data)
        return dst

    copy = copy2 = copyfile


class SimFS:
    def __init__(self, world=None, root="/"):
        self.world = world
        self.dirs = {"/"}
        self.files = {}
        self.trace = []
        self.fds = {}
        self.next_fd = 100
        self.os = SimOS(self)
        self.shutil = SimShutil(self)
        self.fault_hook = None     # fn(kind, path) -> may raise OSError
        self.short_write_hook = None   # fn(path, nbytes) -> number of bytes the "kernel" accepts (None: all)
        self.rawfds = {}           # fd -> SimRaw (descriptor-level API)
        self.mtimes = {}
        self.clock = 0
        self.raws = []             # open raw files (paths follow a rename)
        if root != "/":
            self.dirs.add(posixpath.normpath(root))

    def _y(self, kind, teardown_ok=False):
        w = self.world
        if w is not None:
            if teardown_ok and w._abort:
                return
            w.yield_point("fs." + kind)

    def _fault(self, kind, path):
        if self.fault_hook is not None:
            self.fault_hook(kind, path)

    def _enotdir(self, p, path):
        """ENOTDIR when a proper ancestor of p is a regular file (as the kernel reports it)."""
        q = posixpath.dirname(p)
        while q and q != "/":
            if q in self.files:
                raise NotADirectoryError(errno.ENOTDIR, "Not a directory", path)
            q = posixpath.dirname(q)

    def mark(self, *what):
        """Harness marker in the trace (e.g. ('ret', key) when a set returned)."""
        self.trace.append(("mark",) + tuple(what))

    def _touch(self, p):
        self.clock += 1
        self.mtimes[p] = self.clock

    def _open_raw(self, path, kind, readable, writable, append=False):
        """kind: 'r' must exist; 'w' create or truncate; 'x' create, must not exist; 'c' create if missing, keep contents;
        't' must exist, truncate."""
        if isinstance(path, int):
            raw = self.rawfds.get(path)
            if raw is None:
                raise OSError(errno.EBADF, "Bad file descriptor")
            return raw
        path = _os.fspath(path)
        p = posixpath.normpath(path)
        self._y("open")
        if p in self.dirs:
            if kind == "x":
                raise FileExistsError(errno.EEXIST, "File exists", path)
            raise IsADirectoryError(errno.EISDIR, "Is a directory", path)
        self._enotdir(p, path)
        if len(posixpath.basename(p).encode("utf-8", "surrogateescape")) > 255:
            raise OSError(errno.ENAMETOOLONG, "File name too long", path)
        exists = p in self.files
        if kind in ("r", "t") and not exists:
            raise FileNotFoundError(errno.ENOENT, "No such file or directory", path)
        if kind == "x" and exists:
            raise FileExistsError(errno.EEXIST, "File exists", path)
        if not exists and posixpath.dirname(p) not in self.dirs:
            raise FileNotFoundError(errno.ENOENT, "No such file or directory", path)
        if not exists:
            self._fault("creat", p)
            self.files[p] = bytearray()
            self.trace.append(("creat", p))
            self._touch(p)
        elif kind in ("w", "t"):
            self._fault("creat", p)
            self.files[p] = bytearray()
            self.trace.append(("trunc", p))
            self._touch(p)
        else:
            self._fault("open", p)
            self.trace.append(("open", p))
        fd = self.next_fd
        self.next_fd += 1
        self.fds[fd] = p
        raw = SimRaw(self, p, "rw" if (readable and writable) else ("w" if writable else "r"), fd)
        raw.append = append
        if append:
            raw.pos = len(self.files[p])
        self.rawfds[fd] = raw
        self.raws = [r for r in self.raws if not r.closed] + [raw]
        return raw

    def _wrap(self, raw, mode, buffering=-1, encoding=None, errors=None, newline=None):
        binary = "b" in mode
        if buffering == 0:
            if not binary:
                raise ValueError("can't have unbuffered text I/O")
            return raw
        size = buffering if buffering and buffering > 1 else io.DEFAULT_BUFFER_SIZE
        if raw.readable() and raw.writable():
            buf = io.BufferedRandom(raw, size)
        elif raw.writable():
            buf = io.BufferedWriter(raw, size)
        else:
            buf = io.BufferedReader(raw, size)
        if binary:
            return buf
        return io.TextIOWrapper(buf, encoding=encoding or "utf-8", errors=errors, newline=newline, line_buffering=(buffering == 1))

    def open(self, path, mode="r", buffering=-1, encoding=None, errors=None, newline=None, closefd=True, opener=None):
        flags = set(mode) - {"b", "t"}
        plus = "+" in flags
        flags.discard("+")
        if len(flags) != 1 or not flags <= set("rwax") or opener is not None:
            UNSUPPORTED.append(f"open(mode={mode!r}, opener={opener!r})")
            raise ValueError(f"SimFS.open: unsupported mode {mode!r}")
        k = flags.pop()
        raw = self._open_raw(path, {"r": "r", "w": "w", "x": "x", "a": "c"}[k], readable=(k == "r" or plus),
                             writable=(k != "r" or plus), append=(k == "a"))
        return self._wrap(raw, mode, buffering, encoding, errors, newline)

    # ---- snapshots ---------------------------------------------------------
    def snapshot(self):
        return {"dirs": sorted(self.dirs), "files": {k: bytes(v) for k, v in sorted(self.files.items())}}

    @classmethod
    def from_image(cls, image, world=None):
        fs = cls(world)
        fs.dirs = set(image["dirs"]) | {"/"}
        fs.files = {k: bytearray(v) for k, v in image["files"].items()}
        return fs


# ---------------------------------------------------------------- crash images
META = ("mkdir", "creat", "trunc", "rename", "unlink", "rename-dir", "rmdir")


def crash_images(base_image, trace, upto):
    """Enumerate the on-disk states allowed by model A-FS after a crash that happens once the
    first `upto` trace entries have been issued.

    A-FS: metadata operations (mkdir/creat/trunc) are journalled in program order; fsync(fd)
    commits the journal up to that point and makes the file's current content durable; data
    written and not followed by an fsync of that file may persist completely, not at all or as
    a byte prefix; un-synced metadata operations persist as a prefix of the journal.  Data of
    a file persists only together with the metadata operations of that file preceding it.

    Yields (label, image).  Per image at most one file deviates from "all un-synced data
    reached the disk"; plus one image where no un-synced data of any file did.
    """
    ops = trace[:upto]
    meta_idx = [i for i, op in enumerate(ops) if op[0] in META]
    forced = 0
    for i, op in enumerate(ops):
        if op[0] == "fsync":
            forced = sum(1 for j in meta_idx if j < i)
    M = len(meta_idx)
    seen = set()
    for m in range(forced, M + 1):
        last_meta = meta_idx[m - 1] if m > 0 else -1
        dirs = set(base_image["dirs"])
        # per file: durable bytes + unsynced tail
        files = {k: (bytes(v), b"") for k, v in base_image["files"].items()}
        # replay: metadata ops beyond last_meta are not persisted, and neither is any data
        # written to a file after an un-persisted metadata op of that same file
        blocked = set()
        cur = {k: bytearray(v) for k, v in base_image["files"].items()}     # content incl. unsynced
        synced = {k: bytes(v) for k, v in base_image["files"].items()}      # content guaranteed
        for i, op in enumerate(ops):
            k = op[0]
            if k == "mkdir":
                if i <= last_meta:
                    dirs.add(op[1])
            elif k in ("creat", "trunc"):
                p = op[1]
                if i <= last_meta:
                    cur[p] = bytearray()
                    synced[p] = b""          # truncation is journalled: size 0 is durable
                    blocked.discard(p)
                else:
                    blocked.add(p)
            elif k == "rename":
                s, d = op[1], op[2]
                if i <= last_meta and s in cur and s not in blocked:
                    cur[d] = cur.pop(s)
                    synced[d] = synced.pop(s)      # the rename is journalled; the data keeps its own sync state
                    blocked.discard(d)
                else:
                    blocked.add(s)
            elif k == "rmdir":
                # journalled like mkdir (the directory was empty when it was removed: the unlinks precede it in the journal)
                if i <= last_meta:
                    dirs.discard(op[1])
            elif k == "rename-dir":
                UNSUPPORTED.append(f"crash model: {k}")
            elif k == "unlink":
                if i <= last_meta:
                    cur.pop(op[1], None)
                    synced.pop(op[1], None)
            elif k == "write":
                p = op[1]
                if p in blocked or p not in cur:
                    continue
                if op[2] > len(cur[p]):
                    cur[p].extend(b"\0" * (op[2] - len(cur[p])))
                cur[p][op[2]:op[2] + len(op[3])] = op[3]
            elif k == "ftrunc":
                p = op[1]
                if p in blocked or p not in cur:
                    continue
                n = op[2]
                if n <= len(cur[p]):
                    del cur[p][n:]
                else:
                    cur[p].extend(b"\0" * (n - len(cur[p])))
            elif k == "fsync":
                p = op[1]
                if p in blocked or p not in cur:
                    continue
                synced[p] = bytes(cur[p])
        tails = {}
        for p in cur:
            full = bytes(cur[p])
            base = synced[p]
            if full != base:
                tails[p] = (base, full)

        def build(choice):
            out = {}
            for p in cur:
                if p in tails:
                    base, full = tails[p]
                    c = choice.get(p, "all")
                    if c == "all":
                        out[p] = full
                    elif c == "none":
                        out[p] = base
                    else:
                        # byte-prefix of the un-synced region (appends only in practice)
                        n = {"one": 1, "half": max(1, (len(full) - len(base)) // 2),
                             "allbut1": max(0, len(full) - len(base) - 1)}[c]
                        if len(full) >= len(base) and full[:len(base)] == base:
                            out[p] = full[:len(base) + n]
                        else:
                            out[p] = full[:n]
                else:
                    out[p] = bytes(cur[p])
            return {"dirs": sorted(dirs), "files": out}

        variants = [("all", {})]
        if tails:
            variants.append(("none*", {p: "none" for p in tails}))
            for p in tails:
                for c in ("none", "one", "half", "allbut1"):
                    variants.append((f"{c}:{p}", {p: c}))
        for label, choice in variants:
            img = build(choice)
            key = (tuple(img["dirs"]), tuple(sorted(img["files"].items())))
            if key in seen:
                continue
            seen.add(key)
            yield (f"m={m}/{M} data={label}", img)
