"""SimFS: in-memory POSIX-style file system seam for klongpy.db.file_cache.

It sits *below* real io.BufferedWriter/BufferedReader objects (raw-I/O level), so that what
reaches "the kernel" and when - relative to fsync - is exactly what the shipped code does with
Python's user-space buffering.  Every operation is appended to a trace and is a scheduling
point when a World is attached.  Crash images are derived from a trace prefix under the
persistence model A-FS (see DESIGN.md 3.6).
"""
import errno
import io
import posixpath


class SimRaw(io.RawIOBase):
    def __init__(self, fs, path, mode, fd):
        super().__init__()
        self.fs = fs
        self.path = path
        self.mode = mode
        self.fd = fd
        self.pos = 0
        self.orphan = None       # content of an unlinked-while-open file (POSIX: the handle keeps its inode)

    def readable(self):
        return self.mode in ("r", "rw")

    def writable(self):
        return self.mode in ("w", "rw")

    def seekable(self):
        return self.mode == "rw"

    def seek(self, offset, whence=0):
        if self.mode != "rw":
            raise io.UnsupportedOperation("seek")
        data = self.orphan if self.orphan is not None else self.fs.files.get(self.path, b"")
        base = {0: 0, 1: self.pos, 2: len(data)}[whence]
        self.pos = max(0, base + offset)
        return self.pos

    def tell(self):
        return self.pos

    def fileno(self):
        return self.fd

    def readinto(self, b):
        fs = self.fs
        fs._y("read")
        data = self.orphan if self.orphan is not None else fs.files.get(self.path)
        if data is None:
            raise OSError(errno.EIO, "file vanished")
        chunk = bytes(data[self.pos:self.pos + len(b)])
        n = len(chunk)
        b[:n] = chunk
        self.pos += n
        fs.trace.append(("read", self.path, n))
        return n

    def write(self, b):
        fs = self.fs
        fs._y("write")
        data = bytes(b)
        fs._fault("write", self.path)
        if self.orphan is not None:
            # the name was removed while this handle was open: the bytes go to an inode no name refers to any more
            self.orphan[self.pos:self.pos + len(data)] = data
            fs.trace.append(("owrite", self.path, self.pos, data))
            self.pos += len(data)
            return len(data)
        f = fs.files.get(self.path)
        if f is None:
            raise OSError(errno.EIO, "file vanished")
        f[self.pos:self.pos + len(data)] = data
        fs.trace.append(("write", self.path, self.pos, data))
        self.pos += len(data)
        return len(data)

    def close(self):
        if not self.closed:
            fs = self.fs
            try:
                super().close()
            finally:
                fs.fds.pop(self.fd, None)
                fs.trace.append(("close", self.path))
                fs._y("close", teardown_ok=True)


class SimPath:
    def __init__(self, fs):
        self.fs = fs

    join = staticmethod(posixpath.join)
    dirname = staticmethod(posixpath.dirname)
    basename = staticmethod(posixpath.basename)
    normpath = staticmethod(posixpath.normpath)
    sep = "/"

    def exists(self, path):
        fs = self.fs
        fs._y("exists")
        p = posixpath.normpath(path)
        r = p in fs.files or p in fs.dirs
        fs.trace.append(("exists", p, r))
        return r

    def isdir(self, path):
        return posixpath.normpath(path) in self.fs.dirs

    def isfile(self, path):
        return posixpath.normpath(path) in self.fs.files

    def getsize(self, path):
        fs = self.fs
        fs._y("getsize")
        p = posixpath.normpath(path)
        if p in fs.files:
            n = len(fs.files[p])
        elif p in fs.dirs:
            n = 4096
        else:
            fs._enotdir(p, path)
            raise FileNotFoundError(errno.ENOENT, "No such file or directory", path)
        fs.trace.append(("getsize", p, n))
        return n


class SimOS:
    """Stand-in for the `os` module name inside klongpy.db.file_cache."""
    sep = "/"

    def __init__(self, fs):
        self.fs = fs
        self.path = SimPath(fs)

    def getcwd(self):
        return "/"

    def makedirs(self, path, mode=0o777, exist_ok=False):
        fs = self.fs
        p = posixpath.normpath(path)
        fs._y("makedirs")
        if p in fs.files:
            raise FileExistsError(errno.EEXIST, "File exists", path)
        if p in fs.dirs:
            if not exist_ok:
                raise FileExistsError(errno.EEXIST, "File exists", path)
            return
        parts = []
        q = p
        while q not in fs.dirs:
            if q in fs.files:
                raise NotADirectoryError(errno.ENOTDIR, "Not a directory", path)
            parts.append(q)
            q = posixpath.dirname(q)
        for q in reversed(parts):
            fs._fault("mkdir", q)
            fs.dirs.add(q)
            fs.trace.append(("mkdir", q))
            fs._y("mkdir")

    def fsync(self, fd):
        fs = self.fs
        fs._y("fsync")
        ent = fs.fds.get(fd)
        if ent is None:
            raise OSError(errno.EBADF, "Bad file descriptor")
        fs._fault("fsync", ent)
        fs.trace.append(("fsync", ent))

    def fdatasync(self, fd):
        return self.fsync(fd)

    def replace(self, src, dst):
        fs = self.fs
        fs._y("rename")
        s, d = posixpath.normpath(src), posixpath.normpath(dst)
        if s not in fs.files:
            raise FileNotFoundError(errno.ENOENT, "No such file or directory", src)
        if d in fs.dirs:
            raise IsADirectoryError(errno.EISDIR, "Is a directory", dst)
        if posixpath.dirname(d) not in fs.dirs:
            raise FileNotFoundError(errno.ENOENT, "No such file or directory", dst)
        fs._fault("rename", d)
        fs.files[d] = fs.files.pop(s)
        for fd, p in list(fs.fds.items()):
            if p == s:
                fs.fds[fd] = d
        for raw in fs.raws:
            if raw.path == s and not raw.closed:
                raw.path = d
        fs.trace.append(("rename", s, d))

    rename = replace

    def remove(self, path):
        fs = self.fs
        fs._y("unlink")
        p = posixpath.normpath(path)
        if p in fs.dirs:
            raise IsADirectoryError(errno.EISDIR, "Is a directory", path)
        if p not in fs.files:
            raise FileNotFoundError(errno.ENOENT, "No such file or directory", path)
        gone = fs.files.pop(p)
        for raw in fs.raws:
            if raw.path == p and not raw.closed and raw.orphan is None:
                raw.orphan = gone
        for fd, q in list(fs.fds.items()):
            if q == p:
                fs.fds[fd] = "(unlinked)" + p       # an fsync of it concerns no named file
        fs.trace.append(("unlink", p))

    unlink = remove

    def listdir(self, path):
        p = posixpath.normpath(path)
        if p not in self.fs.dirs:
            raise FileNotFoundError(errno.ENOENT, "No such file or directory", path)
        out = set()
        for q in list(self.fs.files) + list(self.fs.dirs):
            if q != p and posixpath.dirname(q) == p:
                out.add(posixpath.basename(q))
        return sorted(out)

    def walk(self, top):
        """os.walk, top-down (a directory that vanishes meanwhile is skipped, as os.walk does)."""
        self.fs._y("listdir")
        try:
            names = self.listdir(top)
        except OSError:
            return
        dirs = [n for n in names if posixpath.join(posixpath.normpath(top), n) in self.fs.dirs]
        files = [n for n in names if n not in dirs]
        yield top, dirs, files
        for d in dirs:
            yield from self.walk(posixpath.join(top, d))


class SimFS:
    def __init__(self, world=None, root="/"):
        self.world = world
        self.dirs = {"/"}
        self.files = {}
        self.trace = []
        self.fds = {}
        self.next_fd = 100
        self.os = SimOS(self)
        self.fault_hook = None     # fn(kind, path) -> may raise OSError
        self.raws = []             # open raw files (paths follow a rename)
        if root != "/":
            self.dirs.add(posixpath.normpath(root))

    def _y(self, kind, teardown_ok=False):
        w = self.world
        if w is not None:
            if teardown_ok and w._abort:
                return
            w.yield_point("fs." + kind)

    def _fault(self, kind, path):
        if self.fault_hook is not None:
            self.fault_hook(kind, path)

    def _enotdir(self, p, path):
        """ENOTDIR when a proper ancestor of p is a regular file (as the kernel reports it)."""
        q = posixpath.dirname(p)
        while q and q != "/":
            if q in self.files:
                raise NotADirectoryError(errno.ENOTDIR, "Not a directory", path)
            q = posixpath.dirname(q)

    def mark(self, *what):
        """Harness marker in the trace (e.g. ('ret', key) when a set returned)."""
        self.trace.append(("mark",) + tuple(what))

    def open(self, path, mode="r", *a, **k):
        p = posixpath.normpath(path)
        if mode == "rb":
            self._y("open")
            if p in self.dirs:
                raise IsADirectoryError(errno.EISDIR, "Is a directory", path)
            self._enotdir(p, path)
            if p not in self.files:
                raise FileNotFoundError(errno.ENOENT, "No such file or directory", path)
            self._fault("open", p)
            fd = self.next_fd
            self.next_fd += 1
            self.fds[fd] = p
            self.trace.append(("open", p))
            raw = SimRaw(self, p, "r", fd)
            self.raws.append(raw)
            return io.BufferedReader(raw)
        if mode == "wb":
            self._y("open")
            if p in self.dirs:
                raise IsADirectoryError(errno.EISDIR, "Is a directory", path)
            parent = posixpath.dirname(p)
            if parent not in self.dirs:
                self._enotdir(p, path)
                raise FileNotFoundError(errno.ENOENT, "No such file or directory", path)
            self._fault("creat", p)
            if p in self.files:
                self.files[p] = bytearray()
                self.trace.append(("trunc", p))
            else:
                self.files[p] = bytearray()
                self.trace.append(("creat", p))
            fd = self.next_fd
            self.next_fd += 1
            self.fds[fd] = p
            raw = SimRaw(self, p, "w", fd)
            self.raws = [r for r in self.raws if not r.closed] + [raw]
            return io.BufferedWriter(raw)
        if mode in ("r+b", "rb+", "ab"):
            # update in place / append: the file must exist for r+b, is created for ab; nothing is truncated
            self._y("open")
            if p in self.dirs:
                raise IsADirectoryError(errno.EISDIR, "Is a directory", path)
            self._enotdir(p, path)
            if p not in self.files:
                if mode != "ab":
                    raise FileNotFoundError(errno.ENOENT, "No such file or directory", path)
                if posixpath.dirname(p) not in self.dirs:
                    raise FileNotFoundError(errno.ENOENT, "No such file or directory", path)
                self._fault("creat", p)
                self.files[p] = bytearray()
                self.trace.append(("creat", p))
            fd = self.next_fd
            self.next_fd += 1
            self.fds[fd] = p
            self.trace.append(("open", p))
            raw = SimRaw(self, p, "rw" if mode != "ab" else "w", fd)
            if mode == "ab":
                raw.pos = len(self.files[p])
            self.raws = [r for r in self.raws if not r.closed] + [raw]
            return io.BufferedRandom(raw) if mode != "ab" else io.BufferedWriter(raw)
        raise ValueError(f"SimFS.open: unsupported mode {mode!r}")

    # ---- snapshots ---------------------------------------------------------
    def snapshot(self):
        return {"dirs": sorted(self.dirs), "files": {k: bytes(v) for k, v in sorted(self.files.items())}}

    @classmethod
    def from_image(cls, image, world=None):
        fs = cls(world)
        fs.dirs = set(image["dirs"]) | {"/"}
        fs.files = {k: bytearray(v) for k, v in image["files"].items()}
        return fs


# ---------------------------------------------------------------- crash images
META = ("mkdir", "creat", "trunc", "rename", "unlink")


def crash_images(base_image, trace, upto):
    """Enumerate the on-disk states allowed by model A-FS after a crash that happens once the
    first `upto` trace entries have been issued.

    A-FS: metadata operations (mkdir/creat/trunc) are journalled in program order; fsync(fd)
    commits the journal up to that point and makes the file's current content durable; data
    written and not followed by an fsync of that file may persist completely, not at all or as
    a byte prefix; un-synced metadata operations persist as a prefix of the journal.  Data of
    a file persists only together with the metadata operations of that file preceding it.

    Yields (label, image).  Per image at most one file deviates from "all un-synced data
    reached the disk"; plus one image where no un-synced data of any file did.
    """
    ops = trace[:upto]
    meta_idx = [i for i, op in enumerate(ops) if op[0] in META]
    forced = 0
    for i, op in enumerate(ops):
        if op[0] == "fsync":
            forced = sum(1 for j in meta_idx if j < i)
    M = len(meta_idx)
    seen = set()
    for m in range(forced, M + 1):
        last_meta = meta_idx[m - 1] if m > 0 else -1
        dirs = set(base_image["dirs"])
        # per file: durable bytes + unsynced tail
        files = {k: (bytes(v), b"") for k, v in base_image["files"].items()}
        # replay: metadata ops beyond last_meta are not persisted, and neither is any data
        # written to a file after an un-persisted metadata op of that same file
        blocked = set()
        cur = {k: bytearray(v) for k, v in base_image["files"].items()}     # content incl. unsynced
        synced = {k: bytes(v) for k, v in base_image["files"].items()}      # content guaranteed
        for i, op in enumerate(ops):
            k = op[0]
            if k == "mkdir":
                if i <= last_meta:
                    dirs.add(op[1])
            elif k in ("creat", "trunc"):
                p = op[1]
                if i <= last_meta:
                    cur[p] = bytearray()
                    synced[p] = b""          # truncation is journalled: size 0 is durable
                    blocked.discard(p)
                else:
                    blocked.add(p)
            elif k == "rename":
                s, d = op[1], op[2]
                if i <= last_meta and s in cur and s not in blocked:
                    cur[d] = cur.pop(s)
                    synced[d] = synced.pop(s)      # the rename is journalled; the data keeps its own sync state
                    blocked.discard(d)
                else:
                    blocked.add(s)
            elif k == "unlink":
                if i <= last_meta:
                    cur.pop(op[1], None)
                    synced.pop(op[1], None)
            elif k == "write":
                p = op[1]
                if p in blocked or p not in cur:
                    continue
                cur[p][op[2]:op[2] + len(op[3])] = op[3]
            elif k == "fsync":
                p = op[1]
                if p in blocked or p not in cur:
                    continue
                synced[p] = bytes(cur[p])
        tails = {}
        for p in cur:
            full = bytes(cur[p])
            base = synced[p]
            if full != base:
                tails[p] = (base, full)

        def build(choice):
            out = {}
            for p in cur:
                if p in tails:
                    base, full = tails[p]
                    c = choice.get(p, "all")
                    if c == "all":
                        out[p] = full
                    elif c == "none":
                        out[p] = base
                    else:
                        # byte-prefix of the un-synced region (appends only in practice)
                        n = {"one": 1, "half": max(1, (len(full) - len(base)) // 2),
                             "allbut1": max(0, len(full) - len(base) - 1)}[c]
                        if len(full) >= len(base) and full[:len(base)] == base:
                            out[p] = full[:len(base) + n]
                        else:
                            out[p] = full[:n]
                else:
                    out[p] = bytes(cur[p])
            return {"dirs": sorted(dirs), "files": out}

        variants = [("all", {})]
        if tails:
            variants.append(("none*", {p: "none" for p in tails}))
            for p in tails:
                for c in ("none", "one", "half", "allbut1"):
                    variants.append((f"{c}:{p}", {p: c}))
        for label, choice in variants:
            img = build(choice)
            key = (tuple(img["dirs"]), tuple(sorted(img["files"].items())))
            if key in seen:
                continue
            seen.add(key)
            yield (f"m={m}/{M} data={label}", img)
