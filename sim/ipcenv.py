"""Shared environment for the IPC checks (C13, C14): two KlongPy nodes (real interpreter, real
sys_fn_ipc code, SimLoop ioloop + klongloop each) on one SimNet inside one World, an optional
scripted adversarial peer, frame-aware cut planning and stream decoding for oracles."""
import pickle
import struct
import uuid as _uuid

from .klnode import Node
from .simloop import SimLoop, SimNet
from .world import HarnessError, ThreadingShim, World

PORT = 8888


class UuidShim:
    """uuid.uuid4 replacement: counter based, per run."""
    UUID = _uuid.UUID

    def __init__(self):
        self.n = 0

    def uuid4(self):
        self.n += 1
        return _uuid.UUID(int=(0xC0DE << 96) | self.n)

    def __getattr__(self, name):
        return getattr(_uuid, name)


class FrameTracker:
    """Parses the byte stream written into one pipe into IPC frames (16-byte id, 4-byte
    big-endian length, pickle body) as it is written, so that cuts can be placed by byte class
    relative to a frame and oracles can see the order of messages on the wire."""

    def __init__(self):
        self.buf = bytearray()
        self.offset = 0           # absolute offset of buf[0]
        self.frames = []          # (start, total_len, msg_id_int, payload)

    def feed(self, data):
        self.buf += data
        new = []
        while True:
            if len(self.buf) < 20:
                break
            n = struct.unpack("!I", bytes(self.buf[16:20]))[0]
            if len(self.buf) < 20 + n:
                break
            raw = bytes(self.buf[:20 + n])
            try:
                payload = pickle.loads(raw[20:])
            except Exception as e:   # noqa
                payload = ("unpicklable", repr(e))
            fr = (self.offset, 20 + n, int.from_bytes(raw[:16], "big"), payload)
            self.frames.append(fr)
            new.append(fr)
            del self.buf[:20 + n]
            self.offset += 20 + n
        return new


CUT_CLASSES = ["before-any-byte", "inside-id", "id-length-boundary", "inside-length", "length-body-boundary",
               "inside-body", "frame-end-minus-1", "between-frames"]


def cut_offset(ch, cls, total):
    """offset inside a frame of `total` bytes for a cut class."""
    if cls == "before-any-byte":
        return 0
    if cls == "inside-id":
        return 1 + ch.draw(15, "cut.id")
    if cls == "id-length-boundary":
        return 16
    if cls == "inside-length":
        return 17 + ch.draw(3, "cut.len")
    if cls == "length-body-boundary":
        return 20
    if cls == "inside-body":
        return 21 + ch.draw(max(1, total - 22), "cut.body") if total > 22 else min(total - 1, 21)
    if cls == "frame-end-minus-1":
        return total - 1
    return total


class IpcEnv:
    def __init__(self, ch, max_steps=30000, peer="real", lines=0, hot=(), hot_budget=0):
        import klongpy.sys_fn_ipc as ipc
        self.ipc = ipc
        self.ch = ch
        self.w = World(ch, max_steps=max_steps)
        self.net = SimNet(self.w)
        ipc.threading = ThreadingShim(self.w)
        ipc.uuid = UuidShim()
        ipc._ipc_tcp_server = ipc.TcpServerHandler()
        self.trackers = {}          # (cid, direction) -> FrameTracker
        self.cut_plan = None        # dict(direction, frame_index, cls, kind)
        self.cut_fired = None
        self._wrap_send()
        self.client = Node(self.w, self.net, "C")
        self.peer_kind = peer
        if peer == "real":
            self.server = Node(self.w, self.net, "S")
            self.peer = None
        else:
            self.server = None
            self.peer = ScriptedPeer(self)
        if lines:
            self.w.enable_line_preemption([ipc.__file__], lines, gap=50, hot=hot, hot_budget=hot_budget)

    # ---- wire observation and cut placement ---------------------------------
    def _wrap_send(self):
        net = self.net
        orig = net._send

        def send(tr, data):
            key = (tr.conn.cid, tr.side)
            t = self.trackers.get(key)
            if t is None:
                t = self.trackers[key] = FrameTracker()
            nframes = len(t.frames)
            new = t.feed(data)
            plan = self.cut_plan
            if plan is not None and self.cut_fired is None and tr.side == plan["direction"] and tr.conn.cid == plan.get("cid", 0):
                for j, fr in enumerate(new):
                    if nframes + j == plan["frame"]:
                        off = cut_offset(self.ch, plan["cls"], fr[1])
                        p = tr.conn.pipes[tr.side]
                        if plan["kind"] == "stall":
                            # not a loss: the stream goes silent at this byte for a while, then continues
                            p.stall_at = fr[0] + off
                            p.stall_for = plan.get("stall_for", 2.5)
                            self.cut_fired = dict(plan, offset=off, frame_len=fr[1], abs=fr[0] + off)
                            self.w.stats[f"fault_stall_{plan['cls']}"] += 1
                            continue
                        p.cut_at = fr[0] + off
                        p.cut_kind = plan["kind"]
                        self.cut_fired = dict(plan, offset=off, frame_len=fr[1], abs=fr[0] + off)
                        self.w.stats[f"fault_cut_{plan['cls']}_{plan['kind']}"] += 1
                        if p.cut_at <= p.delivered:
                            # nothing of this frame may be delivered: cut right away
                            orig(tr, data)
                            net._kill(tr.conn, plan["kind"], cut_pipe=p)
                            return
            orig(tr, data)
        net._send = send

    def frames(self, cid, direction):
        t = self.trackers.get((cid, direction))
        return t.frames if t else []

    # ---- helpers ------------------------------------------------------------
    def start_server(self, port=PORT, src=None):
        """`.srv(port)` evaluated on the server's klongloop, as the CLI does."""
        node = self.server
        box = node.on_klongloop(lambda: node.klong(f".srv({port})"))
        self.boot_boxes = [box]
        if src:
            for line in src:
                self.boot_boxes.append(node.on_klongloop(lambda line=line: node.klong(line)))
        return box

    def booted(self):
        """every start-up line of the server has been evaluated"""
        return all(("result" in b or "exc" in b) for b in getattr(self, "boot_boxes", []))

    def listener_up(self, port=PORT):
        return port in self.net.listeners

    def run_until(self, pred, max_steps=None):
        return self.w.run(until=pred, max_steps=max_steps)

    def shutdown(self):
        return self.w.shutdown()


class ScriptedPeer:
    """Adversarial IPC peer speaking the real frame format.  It collects requests and lets the
    World decide, request by request, when each is answered (any order), interleaved with
    optional server-push requests; it is obliged to answer everything unless the connection
    is cut."""

    def __init__(self, env):
        import asyncio
        self.env = env
        w = env.w
        self.loop = SimLoop(w, "P.io", env.net)
        self.outstanding = []        # (msg_id(UUID), payload, writer)
        self.answered = []
        self.received = []
        self.push_budget = 0
        self.pushed = 0
        self.push_responses = []
        self.writers = []
        self.answer_fn = None
        self.loop.start()
        ipc = env.ipc

        async def handler(reader, writer):
            self.writers.append(writer)
            try:
                while True:
                    msg_id, msg = await ipc.stream_recv_msg(reader)
                    if any(msg_id == p for p in self.push_ids):
                        self.push_responses.append((msg_id, msg))
                        continue
                    self.received.append((msg_id, msg))
                    self.outstanding.append((msg_id, msg, writer))
            except (asyncio.IncompleteReadError, ConnectionError, OSError):
                pass
            finally:
                writer.close()

        self.push_ids = []

        async def boot():
            self.srv = await asyncio.start_server(handler, None, PORT)

        self.loop.call_soon_threadsafe(lambda: asyncio.ensure_future(boot(), loop=self.loop))
        w.pseudo_sources.append(self._enabled)

    def _enabled(self):
        ev = []
        for i, item in enumerate(self.outstanding):
            ev.append((f"peer-answer#{i}", lambda item=item: self._answer(item)))
        if self.push_budget > self.pushed and self.writers and not self.writers[-1].is_closing():
            ev.append(("peer-push", self._push))
        return ev

    def _answer(self, item):
        ipc = self.env.ipc
        msg_id, msg, writer = item
        self.outstanding.remove(item)
        resp = self.answer_fn(msg)
        self.answered.append((msg_id, msg, resp))
        self.env.w.note(f"peer answers {msg_id.int & 0xffff}")
        if not writer.transport.is_closing():
            writer.transport.write(ipc.encode_message(msg_id, resp))

    def _push(self):
        ipc = self.env.ipc
        self.pushed += 1
        pid = _uuid.UUID(int=(0xBEEF << 96) | self.pushed)
        self.push_ids.append(pid)
        self.env.w.stats["fault_peer_push_request"] += 1
        self.env.w.note("peer pushes request")
        w = self.writers[-1]
        w.transport.write(ipc.encode_message(pid, f"700+{self.pushed}"))
