"""Node: one KlongPy process inside the simulated world - a real KlongInterpreter with two
SimLoops (ioloop, klongloop) passed through the `.system` injection point klongpy already has."""
import sys

from .simloop import SimLoop


class ListCloseEvent:
    """closeEvent with list semantics (klongpy.utils.CallbackEvent keeps a *set* of bound
    methods, whose iteration order is address order - a determinism breaker)."""

    def __init__(self):
        self.subscribers = []

    def subscribe(self, cb):
        if cb not in self.subscribers:
            self.subscribers.append(cb)

    def unsubscribe(self, cb):
        if cb in self.subscribers:
            self.subscribers.remove(cb)

    def trigger(self):
        for cb in list(self.subscribers):
            cb()


class Node:
    def __init__(self, world, net, name, modules=()):
        from klongpy import KlongInterpreter
        self.world = world
        self.name = name
        self.klong = KlongInterpreter()
        self.ioloop = SimLoop(world, f"{name}.io", net)
        self.klongloop = SimLoop(world, f"{name}.kl", net)
        self.close_event = ListCloseEvent()
        self.klong[".system"] = {"ioloop": self.ioloop, "klongloop": self.klongloop,
                                 "closeEvent": self.close_event}
        for m in modules:
            self.klong(f'.py("{m}")')
        self.ioloop.start()
        self.klongloop.start()

    def on_klongloop(self, fn, name=None):
        """Run fn on the klongloop thread the way the CLI runs REPL lines; returns a dict
        that receives 'result' or 'exc' when done."""
        box = {}

        def job():
            try:
                box["result"] = fn()
            except SystemExit:
                raise
            except BaseException as e:   # noqa
                box["exc"] = e
        self.klongloop.call_soon_threadsafe(job)
        return box
