"""Seeded generator of Klong literals covering the transportable / picklable value universe.
The Python value is whatever the (real) interpreter makes of the literal."""

ATOMS = ["0", "1", "-7", "42", "123456789012345678901234567890", "2.5", "-0.5", "1.0e10",
         "0ca", "0cZ", '"hi"', '""', '"a""b"', '"line1\nline2"', '"with space"', ":foo", ":bar1"]
LISTS = ["[]", "[1 2 3]", "[1.5 2.5]", '["a" "b"]', "[[1 2] [3 4]]", "[[1] [2 3]]", "[0ca 0cb]", "[:a :b]",
         '[1 [2 3] "x" :s 0cc]', "[[]]", "[1 2.5]", "[7]"]
DICTS = [":{}", ':{[1 2] ["a" 3]}', ':{[:k "v"]}', ':{["n" [1 2 3]] ["m" [:a "b"]]}']


def gen_literal(ch, depth=0, allow_undef=False, tag="val"):
    if depth > 0:
        # inside a list literal only atoms and lists are evaluated by the reader
        k = ch.weighted([5, 4, 0, 2], tag + ".kind")
    else:
        k = ch.weighted([5, 4, 2, 2] + ([1] if allow_undef else []), tag + ".kind")
    if k == 0:
        return ch.pick(ATOMS, tag + ".atom")
    if k == 1:
        return ch.pick(LISTS, tag + ".list")
    if k == 2:
        return ch.pick(DICTS, tag + ".dict")
    if k == 3:
        if depth >= 2:
            return ch.pick(LISTS, tag + ".list")
        n = 1 + ch.draw(3, tag + ".n")
        return "[" + " ".join(gen_literal(ch, depth + 1, False, tag) for _ in range(n)) + "]"
    return "1%0"


def big_literal(ch, tag="big"):
    """A value whose pickle is larger than io.DEFAULT_BUFFER_SIZE (exercises the un-buffered
    write path of BufferedWriter)."""
    n = 1200 + ch.draw(400, tag)
    return "!" + str(n)


_EXACT = {}


def exact_size_literal(size):
    """A Klong string literal whose pickle (klongpy.db.helpers.serialize_obj) is exactly `size` bytes long -
    boundary values for buffer sizes and chunked writers (8 KiB, multiples of 64 KiB)."""
    if size not in _EXACT:
        from klongpy.db.helpers import serialize_obj
        n = size - 30
        while len(serialize_obj("x" * n)) < size:
            n += 1
        if len(serialize_obj("x" * n)) != size:
            raise ValueError(f"cannot hit pickle size {size} exactly")
        _EXACT[size] = '"' + "x" * n + '"'
    return _EXACT[size]


BOUNDARY_SIZES = [8191, 8192, 8193, 65535, 65536, 65537, 131072]
