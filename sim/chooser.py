"""Chooser: the single source of every random decision in a simulated run.

Search mode draws from random.Random(seed) and records the tape; replay mode feeds a
recorded (possibly shrunk) tape back.  Draw 0 always means "the simplest choice" (keep
running the current actor, no fault, smallest operand), so an exhausted or zeroed tape
degenerates to the least eventful run.
"""
import hashlib
import random


def derive_seed(base, prop, index):
    h = hashlib.sha256(f"{base}|{prop}|{index}".encode()).digest()
    return int.from_bytes(h[:8], "big")


class Chooser:
    __slots__ = ("seed", "rng", "tape", "tags", "replay", "pos", "mismatch", "max_draws")

    def __init__(self, seed=None, tape=None, max_draws=200000):
        self.seed = seed
        self.replay = tape is not None
        self.rng = None if self.replay else random.Random(seed)
        self.tape = list(tape) if self.replay else []
        self.tags = []
        self.pos = 0
        self.mismatch = 0
        self.max_draws = max_draws

    def draw(self, n, tag=""):
        """int in [0, n)."""
        if n <= 1:
            return 0
        if self.replay:
            if self.pos < len(self.tape):
                v = self.tape[self.pos]
                if not (0 <= v < n):
                    v = 0
                    self.mismatch += 1
            else:
                v = 0
            self.pos += 1
            self.tags.append(tag)
            return v
        if len(self.tape) >= self.max_draws:
            v = 0
        else:
            v = self.rng.randrange(n)
        self.tape.append(v)
        self.tags.append(tag)
        return v

    def chance(self, num, den, tag=""):
        """True with probability num/den; draw 0 => False."""
        if num <= 0:
            return False
        return self.draw(den, tag) >= den - num

    def pick(self, seq, tag=""):
        """Uniform element of seq; seq[0] is the simplest."""
        return seq[self.draw(len(seq), tag)]

    def weighted(self, weights, tag=""):
        """Index drawn with the given integer weights; index 0 is the simplest
        (its weight occupies the low draws)."""
        total = sum(weights)
        v = self.draw(total, tag)
        acc = 0
        for i, w in enumerate(weights):
            acc += w
            if v < acc:
                return i
        return len(weights) - 1

    def used_tape(self):
        """The draws actually consumed (replay may have run past the recorded tape)."""
        if self.replay:
            t = self.tape[: self.pos]
            t += [0] * (self.pos - len(t))
            return t
        return list(self.tape)
