"""C16 - the file-backed key-value and table stores are persistent dictionaries.

Real KeyValueStorage / TableStorage / FileCache / PandasDataFrameCache over SimFS with
SimExecutor worker actors and a virtual time_ns; operations issued as Klong source on a real
interpreter (d,k,,v and d?k) by one caller actor.  Reference model: a Python dict (tables: an
index->row map with 'existing rows win').  Invariants on the real cache after every op.
"""
import posixpath

from sim.canon import canon, show
from sim.simfs import SimFS
from sim.storeenv import install_fs, sim_cache, VTime
from sim.values import gen_literal, big_literal
from sim.world import World, install_patches, HarnessError

PROPERTY = "C16"
LEVEL = "exploration"
RULE = ("each run = a seeded sequential history of up to 25 operations (set, get, get of a never-set key, reopen the store on "
        "the same directory, unload an entry, set of a value larger than the limit) over flat and nested prefix-free key "
        "paths and values of every picklable Klong kind, under a drawn cache limit (fits one entry / two / everything), "
        "executed as Klong source d,k,,v / d?k against the real store whose worker tasks are scheduler-owned actors; "
        "non-trivial = the history contains an eviction, a reopen or an unload between a set and a later get of the same "
        "key; distinct = distinct digest of the operation/result sequence.  Keys include Unicode spelling and case variants; "
        "when the store touches names besides its value files the history is run again with those names as keys; tables: "
        "differing column sets (holes), pending inserts, in-place mutation of stored/returned tables; kvs-iofault: one injected read error")
ASSUMPTIONS = [
    "the keys that are SET are prefix-free (a key that is also a directory prefix of another key cannot be represented by the on-disk "
    "layout); never-set keys on such paths ('d' for 'd/e', 'a/zz' below the value 'a') are read and must be :undefined",
    "kvs-iofault configuration: after the one injected read error a get of that key may raise OSError until the key is set again or "
    "the store reopened (shipped behaviour), it must never answer :undefined or another value; everything else is judged as without a fault",
    "single caller: concurrency between callers is C18's subject",
    "SimFS namespace semantics (fidelity self-test compares it with a real tmpfs directory)",
]
REAL_STUB = {
    "real": ["KlongInterpreter (d,k,,v and d?k)", "klongpy.db.sys_fn_kvs.KeyValueStorage/TableStorage", "klongpy.db.file_cache.FileCache",
             "klongpy.db.df_cache.PandasDataFrameCache", "klongpy.db.sys_fn_db.Table", "pickle, pandas"],
    "stub": ["open/os -> SimFS", "time.time_ns -> virtual counter", "lock/executor -> SimLock/SimExecutor (worker tasks are actors)"],
}
EXPECTED_PROBES = ["probe_twin_values_set_in_a_row", "probe_eviction", "probe_reopen", "probe_get_after_evict", "probe_oversize_rejected", "probe_missing_get",
                   "probe_overwrite", "probe_unload", "probe_table_merge_conflict", "probe_table_with_holes_read",
                   "probe_table_stored_with_pending_insert", "probe_table_batch_unordered_or_repeating", "probe_get_raised_after_read_error",
                   "probe_missing_get_on_the_path_of_a_set_key", "probe_returned_table_mutated", "probe_epilogue_pressure_set",
                   "probe_store_opened_again_with_another_limit", "probe_table_without_rows_stored"]
WALL_CAP = {"quick": 300, "thorough": 3600}

_fc = _kvs = _dfc = None


TWIN_VALUES = [('"aca"', '"bab"'), ("[1 3 1]", "[2 1 2]"), ('"ab"', '"ba"'), ("[1 2]", "[2 1]"), ('"aXb"', '"aYb"'), ("[10 20 30]", "[30 20 10]"),
               (':{[1 "aca"]}', ':{[1 "bab"]}'), ("[[1 2] [3 4]]", "[[3 4] [1 2]]"), ("1.5", "2.5"), ('["ad" "bc"]', '["bc" "ad"]')]


def setup_worker():
    global _fc, _kvs, _dfc
    install_patches()
    import klongpy.db.file_cache as fc
    import klongpy.db.sys_fn_kvs as kvs
    import klongpy.db.df_cache as dfc
    _fc, _kvs, _dfc = fc, kvs, dfc


def _fresh_store_modules():
    """every run starts from the module-level state of a fresh process (a registry or cache a change keeps in a module of the
    store layer must not carry over from the previous run of this worker: the run would not replay)"""
    import importlib
    global _fc, _kvs, _dfc
    _fc = importlib.reload(_fc)
    _dfc = importlib.reload(_dfc)
    _kvs = importlib.reload(_kvs)
    return _fc, _kvs


def plan(tier):
    if tier == "quick":
        return [("kvs", {"kind": "kvs"}, 2400, 50), ("tables", {"kind": "tables"}, 700, 25), ("kvs-iofault", {"kind": "kvs", "iofault": 1}, 800, 50)]
    return [("kvs", {"kind": "kvs"}, 120000, 200), ("tables", {"kind": "tables"}, 30000, 100), ("kvs-iofault", {"kind": "kvs", "iofault": 1}, 40000, 200)]


# incl. two spellings of one accented word (composed / decomposed) and a case pair: distinct strings are distinct keys
KEYPOOL = ["a", "b", "c", "d/e", "d/f", "g/h/i", "g/h/j", "k k", "l.m", "café", "café", "Q", "q"]
ROOT = "/kv"


def _check_cache(cache, fs, violations, when, model_keys, decode, failed_ok=None, diag=None, configured=None):
    total = 0
    for name, info in list(cache.file_futures.items()):
        if info[0] and name == failed_ok and info[-1].done() and isinstance(info[-1].exception(), OSError):
            continue        # the load that met the injected read error (iofault configuration only)
        if info[0]:
            violations.append({"sig": "C16:inv:busy-entry-while-idle", "msg": f"{when}: {name} {info[:2]}"})
            continue
        total += info[1]
        fut = info[-1]
        if not fut.done():
            violations.append({"sig": "C16:inv:future-not-done", "msg": f"{when}: {name}"})
            continue
        try:
            cached = fut.result()
        except BaseException as e:   # noqa
            violations.append({"sig": f"C16:inv:cached-future-failed:{type(e).__name__}", "msg": f"{when}: {name}"})
            continue
        disk = fs.files.get(posixpath.join(ROOT, name))
        if disk is None:
            violations.append({"sig": "C16:inv:cached-but-no-file", "msg": f"{when}: {name}"})
        elif not decode(cached, bytes(disk)):
            violations.append({"sig": "C16:inv:cache-differs-from-disk", "msg": f"{when}: {name}"})
    if cache.current_memory_usage != total:
        violations.append({"sig": "C16:inv:accounting-sum", "msg": f"{when}: usage={cache.current_memory_usage} sum={total}"})
    if not (0 <= cache.current_memory_usage <= cache.max_memory):
        violations.append({"sig": "C16:inv:accounting-range", "msg": f"{when}: usage={cache.current_memory_usage} max={cache.max_memory}"})
    elif configured is not None and cache.current_memory_usage > configured:
        # the limit that counts is the one this store object was opened with
        violations.append({"sig": "C16:inv:accounting-above-the-configured-limit", "msg": f"{when}: usage={cache.current_memory_usage}, the store object "
                           f"was opened with max_memory={configured} (the cache works with {cache.max_memory})"})
    # the shape of the LRU structure is NOT judged (the property speaks of the accounting and of what gets read back; a cache
    # that deletes LRU records lazily would hold it): counted as diagnostics only, the behavioural consequence of a record the
    # eviction pass cannot cope with is what the epilogue of every history provokes
    if diag is not None:
        try:
            heap_names = [fn for _, fn in cache.file_access_times]
            if any(fn not in cache.file_futures for fn in heap_names):
                diag["diag_lru_record_without_entry"] += 1
            if any(heap_names.count(fn) != 1 for fn, info in cache.file_futures.items() if not (fn == failed_ok and info[0])):
                diag["diag_entry_without_exactly_one_lru_record"] += 1
        except Exception:
            pass
    files = {p[len(ROOT) + 1:] for p in fs.files if p.startswith(ROOT + "/")}
    if files != set(model_keys):
        violations.append({"sig": "C16:inv:directory-differs-from-model",
                           "msg": f"{when}: files={sorted(files)} model={sorted(model_keys)}"})


def scenario(ch, cfg):
    if cfg["kind"] == "tables":
        return scenario_tables(ch, cfg)
    from klongpy import KlongInterpreter
    from klongpy.db.helpers import serialize_obj
    fc, kvs = _fresh_store_modules()
    w = World(ch, max_steps=60000, policy=ch.weighted([2, 1, 2], "policy"))
    fs = SimFS(w, ROOT)
    install_fs(fc, fs)
    from klongpy.core import KGSym
    klong = KlongInterpreter()
    klong('.py("klongpy.db")')
    twin = KlongInterpreter()
    nkeys = 1 + ch.draw(4, "nkeys")
    pool = list(KEYPOOL)
    keys = [pool.pop(ch.draw(len(pool), "key")) for _ in range(nkeys)]
    # adaptive second pass (see the end of this function): names the store touched besides its own value files
    keys += [k for k in cfg.get("extra_keys", []) if k not in keys]
    nkeys = len(keys)
    missing_key = pool[0]
    nops = 3 + ch.draw(23, "nops")
    # pre-generate operations
    ops = []
    sizes = []
    for _ in range(nops):
        k = ch.weighted([6, 7, 2, 2, 2, 1], "op")
        if k == 0 and ch.chance(1, 7, "twins"):
            # two sets of one key in a row whose values have the same length and differ by a permutation / by compensating
            # byte changes (what a length, sum or Adler-style fingerprint cannot tell apart): the second one is the latest set
            a, b = TWIN_VALUES[ch.draw(len(TWIN_VALUES), "twin")]
            if ch.draw(2, "twinorder"):
                a, b = b, a
            key = keys[ch.draw(nkeys, "k")]
            for lit in (a, b):
                ops.append(["set", key, lit])
                sizes.append(len(serialize_obj(twin(f'"{key}",,{lit}')[1])))
            w.stats["probe_twin_values_set_in_a_row"] += 1
            continue
        if k == 0:
            lit = big_literal(ch) if ch.chance(1, 12, "big") else gen_literal(ch, allow_undef=True)
            if lit.startswith("0c"):
                lit = "[" + lit + "]"      # k,,0cx is string concatenation in Klong, not a pair
            key = keys[ch.draw(nkeys, "k")]
            ops.append(["set", key, lit])
            pair = twin(f'"{key}",,{lit}')
            if len(pair) != 2 or pair[0] != key:
                raise HarnessError(f"pair idiom failed for {lit!r}: {pair!r}")
            sizes.append(len(serialize_obj(pair[1])))
        elif k == 1:
            ops.append(["get", keys[ch.draw(nkeys, "k")]])
        elif k == 2:
            # never-set keys: one unrelated to everything, the directory prefixes of the nested keys in use
            # ("d" and "g/h" when "d/e", "g/h/i" are keys) and paths below a flat key ("a/zz")
            cands = [missing_key] + sorted({"/".join(kk.split("/")[:j]) for kk in keys for j in range(1, kk.count("/") + 1)}) \
                + [kk + "/zz" for kk in keys if "/" not in kk]
            ops.append(["getmissing", cands[ch.draw(len(cands), "missingkind")]])
        elif k == 3:
            ops.append(["reopen"])
        elif k == 4:
            ops.append(["unload", keys[ch.draw(nkeys, "k")]])
        else:
            ops.append(["oversize", keys[ch.draw(nkeys, "k")]])
    maxsz = max(sizes + [16])
    lim_kind = ch.weighted([2, 3, 2, 1], "limit")
    limit = [1 << 20, maxsz, 2 * maxsz, maxsz + 7][lim_kind]
    # "under any cache-size limit", "several [store objects] opened one after another": in some runs every store object is
    # built through the Python constructor with a limit of its own (a later object may be given a smaller or a larger one)
    varlimits = ch.draw(3, "varlimits") == 0
    stats = w.stats
    violations = []
    model = {}
    log = []
    state = {"store": None, "since_set": {}, "limit": None}
    # fault-injecting configuration (kept apart from the fault-free one): ONE transient read error (EIO when a
    # value file is opened for loading).  Narrow relaxation: from then on a get of THAT key may raise OSError until
    # the key is set again or the store is reopened (the failed load stays registered - shipped behaviour); it
    # must never answer :undefined or a wrong value, and everything about the other keys is judged as without a fault.
    iof = {"at": ch.draw(5, "ioat"), "seen": 0, "fired": False, "key": None} if cfg.get("iofault") else None
    if iof is not None:
        import errno as _errno

        def hook(kind, path):
            if kind == "open" and not iof["fired"]:
                if iof["seen"] == iof["at"]:
                    iof["fired"] = True
                    iof["key"] = path[len(ROOT) + 1:]
                    stats["fs_fault_read_open_EIO"] += 1
                    raise OSError(_errno.EIO, "injected I/O error")
                iof["seen"] += 1
        fs.fault_hook = hook

    def open_store():
        # created the way a user does; the cache limit is a configuration knob of the cache object
        if varlimits:
            lim = [1 << 20, maxsz, 2 * maxsz, maxsz + 7][ch.weighted([2, 3, 2, 1], "limit.open")] if state["limit"] is not None else limit
            st = kvs.KeyValueStorage(ROOT, max_memory=lim)
            klong._context[KGSym("kvs")] = st
            if state["limit"] is not None and lim != state["limit"]:
                stats["probe_store_opened_again_with_another_limit"] += 1
        else:
            lim = limit
            klong(f'kvs::.kvs("{ROOT}")')
            st = klong._context[KGSym("kvs")]
            assert isinstance(st, kvs.KeyValueStorage)
            st.cache.max_memory = lim
        state["limit"] = lim
        sim_cache(st.cache, w)
        state["store"] = st

    def decode(cached, disk):
        return bytes(cached) == disk

    def viol(sig, msg):
        violations.append({"sig": sig, "msg": msg})

    def run_ops():
        open_store()
        for i, op in enumerate(ops):
            st = state["store"]
            kind = op[0]
            n_entries = len(st.cache.file_futures)
            if kind == "set":
                _, key, lit = op
                klong(f't::"{key}",,{lit}')
                expect = canon(klong("t@1"))
                try:
                    klong("kvs,t")
                    res = "ok"
                except BaseException as e:   # noqa
                    if isinstance(e, SystemExit):
                        raise
                    res = f"raised {type(e).__name__}"
                    viol(f"C16:set-raises:{type(e).__name__}", f"op {i} set({key!r},{lit[:30]}) {res}: {str(e)[:100]}")
                else:
                    if key in model:
                        stats["probe_overwrite"] += 1
                    model[key] = expect
                    state["since_set"][key] = set()
                    if iof is not None and iof["key"] == key:
                        iof["key"] = None       # the set replaces the failed load: strict again
                log.append(f"set({key},{lit[:24]})->{res}")
            elif kind in ("get", "getmissing"):
                key = op[1]
                try:
                    got = klong(f'kvs?"{key}"')
                    res = canon(got)
                except BaseException as e:   # noqa
                    if isinstance(e, SystemExit):
                        raise
                    res = ("raised", type(e).__name__)
                want = model.get(key, ("undef",))
                if kind == "getmissing" or key not in model:
                    stats["probe_missing_get"] += 1
                    if key != missing_key and any(mk.startswith(key + "/") or key.startswith(mk + "/") for mk in model):
                        stats["probe_missing_get_on_the_path_of_a_set_key"] += 1
                if res != want and iof is not None and iof["key"] == key and res == ("raised", "OSError"):
                    stats["probe_get_raised_after_read_error"] += 1
                elif res != want:
                    if key not in model:
                        viol(f"C16:get-missing:{res[1] if res[0] == 'raised' else 'wrong-value'}",
                             f"op {i}: never-set key {key!r} reads {res}; expected :undefined")
                    else:
                        what = res[1] if res[0] == "raised" else ("wrong-value(undef-copy)" if res == ("undef-copy",) else "wrong-value")
                        viol(f"C16:get:{what}", f"op {i}: key {key!r} reads {str(res)[:120]}; latest set stored {str(want)[:120]} "
                             f"(since that set: {sorted(state['since_set'].get(key, ()))})")
                elif key in model and state["since_set"].get(key):
                    if "evict" in state["since_set"][key]:
                        stats["probe_get_after_evict"] += 1
                log.append(f"get({key})->{str(res)[:40]}")
            elif kind == "reopen":
                open_store()
                stats["probe_reopen"] += 1
                if iof is not None:
                    iof["key"] = None
                for s in state["since_set"].values():
                    s.add("reopen")
                log.append("reopen")
            elif kind == "unload":
                st.cache.unload_file(op[1])
                stats["probe_unload"] += 1
                state["since_set"].setdefault(op[1], set()).add("unload")
                log.append(f"unload({op[1]})")
            elif kind == "oversize":
                key = op[1]
                over_lit = '"' + "x" * (state["limit"] + 10) + '"'
                klong(f't::"{key}",,{over_lit}')
                try:
                    klong("kvs,t")
                    viol("C16:oversize-accepted", f"op {i}: a value larger than the limit {state['limit']} was accepted for {key!r}")
                    model[key] = canon(klong("t@1"))
                except MemoryError:
                    stats["probe_oversize_rejected"] += 1
                except BaseException as e:   # noqa
                    if isinstance(e, SystemExit):
                        raise
                    viol(f"C16:oversize-raises:{type(e).__name__}", f"op {i}: {str(e)[:100]}")
                log.append(f"oversize({key})")
            st = state["store"]
            if kind in ("set", "get", "getmissing") and len(st.cache.file_futures) <= n_entries and kind == "set" and n_entries > 0 \
                    and op[1] not in st.cache.file_futures:
                pass
            # which keys are still cached -> record evictions for the non-triviality rule
            for key in model:
                if key not in st.cache.file_futures and "reopen" not in state["since_set"].get(key, set()) \
                        and "unload" not in state["since_set"].get(key, set()):
                    if "evict" not in state["since_set"].setdefault(key, set()):
                        state["since_set"][key].add("evict")
                        stats["probe_eviction"] += 1
            w.note(log[-1])
            _check_cache(st.cache, fs, violations, f"after op {i} {log[-1]}", model.keys(), decode,
                         failed_ok=iof["key"] if iof is not None else None, diag=stats, configured=state["limit"])
            if len(violations) > 8:
                return
        if violations:
            return
        # ---- epilogue: eviction pressure.  What the property promises about the cache's bookkeeping is behavioural: whatever the
        # history left in the LRU structures, later sets of values that fit must be accepted, must push older entries out, and
        # every key must still read its latest value.  (A record the eviction pass cannot resolve, or an entry it can never
        # evict, shows here as a failing set or a wrong read - the internal shape of the LRU structure itself is not judged.)
        st = state["store"]
        fill = None
        for lit_n in range(max(maxsz - 12, 1), 0, -1):
            if len(serialize_obj("x" * lit_n)) <= maxsz:
                fill = lit_n
                break
        pkeys = [pk for pk in ("zp0", "zp1", "zp2") if pk not in model and pk not in keys]
        for j, pk in enumerate(pkeys):
            limit_now = state["limit"]
            lit = ('"' + "xyz"[j] * fill + '"') if fill and limit_now < (1 << 20) else str(900 + j)
            klong(f't::"{pk}",,{lit}')
            expect = canon(klong("t@1"))
            try:
                klong("kvs,t")
            except BaseException as e:   # noqa
                if isinstance(e, SystemExit):
                    raise
                viol(f"C16:set-raises:{type(e).__name__}", f"epilogue set({pk!r}, {len(lit)} chars, fits the limit {limit_now}) raised {type(e).__name__}: {str(e)[:100]} after {log[-3:]}")
                break
            model[pk] = expect
            stats["probe_epilogue_pressure_set"] += 1
            _check_cache(st.cache, fs, violations, f"epilogue after set({pk})", model.keys(), decode,
                         failed_ok=iof["key"] if iof is not None else None, diag=stats, configured=state["limit"])
        for key in sorted(model):
            if violations:
                break
            try:
                res = canon(klong(f'kvs?"{key}"'))
            except BaseException as e:   # noqa
                if isinstance(e, SystemExit):
                    raise
                res = ("raised", type(e).__name__)
            if res != model[key]:
                if iof is not None and iof["key"] == key and res == ("raised", "OSError"):
                    continue
                what = res[1] if res[0] == "raised" else "wrong-value"
                viol(f"C16:get:{what}", f"epilogue: key {key!r} reads {str(res)[:120]}; latest set stored {str(model[key])[:120]}")
            _check_cache(st.cache, fs, violations, f"epilogue after get({key})", model.keys(), decode,
                         failed_ok=iof["key"] if iof is not None else None, diag=stats, configured=state["limit"])

    a = w.spawn("caller", run_ops)
    reason = w.run()
    if not a.done:
        violations.append({"sig": "C16:hang", "msg": f"caller blocked at {a.desc} ({reason}) after {log[-3:]}"})
    elif a.exc is not None:
        raise HarnessError(f"caller crashed: {a.exc!r}")
    nontrivial = any(s for s in state["since_set"].values())
    sample = {"store": "kvs", "limit": limit, "keys": keys, "ops": log[:30]}
    out = {"violations": violations, "stats": dict(stats), "digest": w.digest(), "sched": w.sched_digest(),
           "state_keys": [f"{len(state['store'].cache.file_futures)}|{lim_kind}"] if state["store"] is not None else [],
           "sim_time": w.now, "steps": w.steps, "nontrivial": nontrivial, "sample": sample, "tail": list(w.tail)}
    w.shutdown()
    # every name under the root that was created / written / renamed / removed and is not the value file of a key of this
    # run (scratch files, markers, ...) is a legal key name: run once more with those names in the key set, so that a
    # store that borrows names from the key space meets a key of that name
    foreign = set()
    for op in fs.trace:
        if op[0] in ("creat", "trunc", "write", "rename", "unlink"):
            for pth in (op[1:3] if op[0] == "rename" else op[1:2]):
                rel = pth[len(ROOT) + 1:]
                if rel and rel not in keys:
                    foreign.add(rel)
    if foreign and not violations and "extra_keys" not in cfg:
        second = scenario(ch, dict(cfg, extra_keys=sorted(foreign)[:3]))
        out["violations"] = second["violations"]
        out["stats"] = {k: out["stats"].get(k, 0) + v for k, v in second["stats"].items()} | {k: v for k, v in out["stats"].items() if k not in second["stats"]}
        out["stats"]["probe_second_pass_with_names_the_store_touched"] = out["stats"].get("probe_second_pass_with_names_the_store_touched", 0) + 1
        out["digest"] = out["digest"] + second["digest"]
        out["sample"] = dict(second["sample"], first_pass_keys=keys, names_touched=sorted(foreign))
        out["tail"] = second["tail"]
    return out


# ------------------------------------------------------------------------ tables
def scenario_tables(ch, cfg):
    import pandas as pd
    from klongpy import KlongInterpreter
    from klongpy.db.helpers import deserialize_df
    from klongpy.db.sys_fn_db import Table
    from sim.world import ThreadingShim
    _fresh_store_modules()
    fc, kvs, dfc = _fc, _kvs, _dfc
    w = World(ch, max_steps=60000, policy=ch.weighted([2, 1, 2], "policy"))
    fs = SimFS(w, ROOT)
    install_fs(fc, fs)
    dfc.threading = ThreadingShim(w)
    from klongpy.core import KGSym
    klong = KlongInterpreter()
    klong('.py("klongpy.db")')
    nkeys = 1 + ch.draw(3, "nkeys")
    pool = ["t1", "t2", "d/t3", "d/e/t4"]
    keys = [pool.pop(ch.draw(len(pool), "key")) for _ in range(nkeys)]
    nops = 3 + ch.draw(14, "nops")
    lim_kind = ch.weighted([2, 2, 2], "limit")
    limit = [1 << 30, 3600, 7200][lim_kind]      # (a table of all nine index values serializes to about 3.2 kB)
    stats = w.stats
    violations = []
    model = {}
    log = []
    state = {"store": None, "touched": False, "columns": {}}
    indexed = ch.draw(2, "indexed")    # whole run uses explicit-index tables or positional ones

    def open_store():
        klong(f'tbs::.tables("{ROOT}")')
        st = klong._context[KGSym("tbs")]
        assert isinstance(st, kvs.TableStorage)
        st.cache.max_memory = limit
        sim_cache(st.cache, w)
        state["store"] = st

    def decode(cached, disk):
        try:
            return cached.equals(deserialize_df(disk))
        except Exception:
            return False

    def mk_table():
        n = 1 + ch.draw(3, "rows")
        batch = False
        if indexed:
            idx = sorted({ch.draw(6, "idx") for _ in range(n)})
            if ch.draw(4, "batch") == 0:
                # a batch as a feed delivers it: later index values than anything stored so far, not necessarily in order,
                # one index value possibly twice (a correction following the original)
                batch = True
                idx = [6 + ch.draw(3, "batch.ix") for _ in range(2 + ch.draw(2, "batch.n"))]
                stats["probe_table_batch_unordered_or_repeating"] += 1
        else:
            idx = list(range(n))
        if not batch and ch.draw(8, "norows") == 0:
            # a table that has its columns but no rows yet: a value like any other (the key HAS been set afterwards)
            idx = []
            stats["probe_table_without_rows_stored"] += 1
        vals = [100 * (len(log) + 1) + j for j in range(len(idx))]
        # a wide string column makes the in-memory size (what the cache accounts) comparable to
        # the limit, so that small limits really evict
        strs = [f"{v}".ljust(150, "_") for v in vals]
        cols = {"a": idx, "b": vals, "s": strs}
        # tables of one key need not have the same columns: the merge then leaves holes (missing cells) in the
        # rows that lack a column, and a later table must not fill them ("existing rows win")
        if ch.draw(3, "colc") == 0:
            cols["c"] = [v + 1 for v in vals]
            stats["probe_table_extra_column"] += 1
        if ch.draw(5, "nob") == 0:
            del cols["b"]
            stats["probe_table_missing_column"] += 1
        state["last_cols"] = list(cols)
        klongtable = bool(indexed and not batch and ch.draw(2, "klongtable"))

        def make():
            if klongtable:
                t = Table(pd.DataFrame(cols))
                t.set_index(["a"])          # what .index(t;["a"]) does
                return t
            return Table(pd.DataFrame(cols, index=idx if indexed else None))
        t = make()
        twin_t = make()
        if (klongtable or not indexed) and ch.draw(4, "pending") == 0:
            # a row added with .insert that is still pending in the table's buffer when the table is stored (the flow of
            # the .tables() documentation: .insert(prices;d) then ts,"tables/prices",prices)
            import numpy as np
            new_a = ((max(idx) + 1) if idx else 0) if indexed else len(idx)
            v = 100 * (len(log) + 1) + 50
            row = {"a": new_a, "b": v, "s": f"{v}".ljust(150, "_"), "c": v + 1}
            arr = np.array([row[c] for c in cols], dtype=object)
            t.insert(arr)
            twin_t.insert(arr.copy())
            stats["probe_table_stored_with_pending_insert"] += 1
        klong._context[KGSym("T")] = t
        return table_row_list(twin_t)     # (reading the rows commits the buffer: done on the twin, not on the table to be stored)

    def _cell(x):
        if isinstance(x, str):
            return x
        if x is None or x != x:
            return None                 # a hole
        return int(x)

    def table_rows(t):
        """rows as {index: {column: cell}} - holes are None, column order is not compared"""
        df = t.get_dataframe()
        out = {}
        names = [str(c) for c in df.columns]
        for ix, row in zip(df.index, df.itertuples(index=False)):
            key = tuple(ix) if isinstance(ix, tuple) else (int(ix),)
            out[tuple(int(x) for x in key)] = {c: _cell(x) for c, x in zip(names, row)}
        return out

    def table_row_list(t):
        df = t.get_dataframe()
        names = [str(c) for c in df.columns]
        out = []
        for ix, row in zip(df.index, df.itertuples(index=False)):
            key = tuple(ix) if isinstance(ix, tuple) else (int(ix),)
            out.append((tuple(int(x) for x in key), {c: _cell(x) for c, x in zip(names, row)}))
        return out

    def with_holes(key):
        cols = state["columns"].get(key, [])
        return {ix: {c: row.get(c) for c in cols} for ix, row in model[key].items()}

    def run_ops():
        open_store()
        for i in range(nops):
            st = state["store"]
            k = ch.weighted([6, 6, 2, 2, 1, 2], "op")
            if k == 5:
                # the application modifies, in place, a table it got from the store or the table it has just
                # stored: neither may change what the store returns (values are copies, not aliases of the cache)
                key = keys[ch.draw(nkeys, "k")]
                if key in model:
                    try:
                        got = klong(f'tbs?"{key}"')
                        if isinstance(got, Table):
                            got.set("zz", 1)
                            stats["probe_returned_table_mutated"] += 1
                    except BaseException as e:   # noqa
                        if isinstance(e, SystemExit):
                            raise
                log.append(f"mutate-returned({key})")
                w.note(log[-1])
                continue
            if k == 0:
                key = keys[ch.draw(nkeys, "k")]
                rows = mk_table()
                try:
                    klong(f'tbs,"{key}",,T')
                    if ch.draw(3, "mutate_input") == 0:
                        # the caller goes on using (and changing) the table it has just stored
                        klong._context[KGSym("T")].set("zz", 1)
                        stats["probe_stored_table_mutated_afterwards"] += 1
                    cur = model.setdefault(key, {})
                    seen = state["columns"].setdefault(key, [])
                    for c in state["last_cols"]:
                        # (a table without rows still brings its columns)
                        if c not in seen:
                            seen.append(c)
                    for _ix, row in rows:
                        for c in row:
                            if c not in seen:
                                seen.append(c)
                    fresh_ix = set()
                    for ix, row in rows:
                        if ix in cur and ix not in fresh_ix:
                            stats["probe_table_merge_conflict"] += 1
                        elif ix in fresh_ix:
                            # the same index value twice inside one new table: which of its rows stays is not prescribed,
                            # only that exactly one does
                            state.setdefault("alts", {}).setdefault((key, ix), []).append(row)
                        else:
                            cur[ix] = row
                            fresh_ix.add(ix)
                    log.append(f"set({key},{[(ix[0], sorted(c for c in r if c != 's'), r.get('b', r.get('c'))) for ix, r in rows]})")
                except BaseException as e:   # noqa
                    if isinstance(e, SystemExit):
                        raise
                    violations.append({"sig": f"C16:table-set-raises:{type(e).__name__}", "msg": f"op {i}: {str(e)[:120]}"})
                    log.append(f"set({key})->raised")
            elif k == 1 or k == 2:
                key = keys[ch.draw(nkeys, "k")] if k == 1 else "never"
                try:
                    got = klong(f'tbs?"{key}"')
                    if isinstance(got, Table):
                        res = table_rows(got)
                        nrows = len(table_row_list(got))
                        if indexed and nrows != len(res):
                            violations.append({"sig": "C16:table-get:index-value-more-than-once", "msg": f"op {i}: table {key!r} has {nrows} rows for "
                                               f"{len(res)} distinct index values: {[ix[0] for ix, _ in table_row_list(got)]}"})
                    else:
                        res = canon(got)
                except BaseException as e:   # noqa
                    if isinstance(e, SystemExit):
                        raise
                    res = ("raised", type(e).__name__)
                want = with_holes(key) if key in model else ("undef",)
                if key in model and any(v is None for r in want.values() for v in r.values()):
                    stats["probe_table_with_holes_read"] += 1
                if key not in model:
                    stats["probe_missing_get"] += 1
                if res != want and key in model and isinstance(res, dict) and set(res) == set(want):
                    # rows for which the new table itself offered several candidates: any of them
                    cols_ = state["columns"].get(key, [])
                    alts = state.get("alts", {})
                    if all(res[ix] == want[ix] or any(res[ix] == {c: r.get(c) for c in cols_} for r in alts.get((key, ix), [])) for ix in want):
                        res = want
                if res != want:
                    if key not in model:
                        violations.append({"sig": "C16:table-get-missing", "msg": f"op {i}: never-set table {key!r} reads {res}"})
                    else:
                        violations.append({"sig": "C16:table-get:wrong", "msg": f"op {i}: table {key!r} reads {res}; model {want}"})
                log.append(f"get({key})->{str(res)[:50]}")
            elif k == 3:
                open_store()
                stats["probe_reopen"] += 1
                state["touched"] = True
                log.append("reopen")
            else:
                key = keys[ch.draw(nkeys, "k")]
                st.cache.unload_file(key)
                stats["probe_unload"] += 1
                state["touched"] = True
                log.append(f"unload({key})")
            st = state["store"]
            if any(key not in st.cache.file_futures for key in model) and lim_kind != 0:
                stats["probe_eviction"] += 1
                state["touched"] = True
            w.note(log[-1])
            _check_cache(st.cache, fs, violations, f"after op {i} {log[-1]}", model.keys(), decode, diag=stats)
            if len(violations) > 8:
                return
        if violations:
            return
        # ---- epilogue: eviction pressure.  What the property promises about the cache's bookkeeping is behavioural: whatever the
        # history left in the LRU structures, later sets of values that fit must be accepted, must push older entries out, and
        # every key must still read its latest value.  (A record the eviction pass cannot resolve, or an entry it can never
        # evict, shows here as a failing set or a wrong read - the internal shape of the LRU structure itself is not judged.)
        st = state["store"]
        pkeys = [pk for pk in ("zp0", "zp1", "zp2") if pk not in model and pk not in keys]
        for pk in pkeys:
            rows = mk_table()
            try:
                klong(f'tbs,"{pk}",,T')
            except BaseException as e:   # noqa
                if isinstance(e, SystemExit):
                    raise
                violations.append({"sig": f"C16:table-set-raises:{type(e).__name__}", "msg": f"epilogue set({pk}): {str(e)[:120]} after {log[-3:]}"})
                break
            cur = model.setdefault(pk, {})
            seen = state["columns"].setdefault(pk, [])
            for c in state["last_cols"]:
                if c not in seen:
                    seen.append(c)
            for ix, row in rows:
                for c in row:
                    if c not in seen:
                        seen.append(c)
                if ix in cur:
                    state.setdefault("alts", {}).setdefault((pk, ix), []).append(row)
                else:
                    cur[ix] = row
            log.append(f"epilogue set({pk})")
            stats["probe_epilogue_pressure_set"] += 1
            _check_cache(st.cache, fs, violations, f"epilogue after set({pk})", model.keys(), decode, diag=stats)
        for key in sorted(model):
            if violations:
                break
            try:
                got = klong(f'tbs?"{key}"')
                res = table_rows(got) if isinstance(got, Table) else canon(got)
            except BaseException as e:   # noqa
                if isinstance(e, SystemExit):
                    raise
                res = ("raised", type(e).__name__)
            want = with_holes(key)
            if res != want and isinstance(res, dict) and set(res) == set(want):
                cols_ = state["columns"].get(key, [])
                alts = state.get("alts", {})
                if all(res[ix] == want[ix] or any(res[ix] == {c: r.get(c) for c in cols_} for r in alts.get((key, ix), [])) for ix in want):
                    res = want
            if res != want:
                violations.append({"sig": "C16:table-get:wrong", "msg": f"epilogue: table {key!r} reads {str(res)[:300]}; model {str(want)[:300]}"})
            _check_cache(st.cache, fs, violations, f"epilogue after get({key})", model.keys(), decode, diag=stats)

    a = w.spawn("caller", run_ops)
    reason = w.run()
    if not a.done:
        violations.append({"sig": "C16:hang", "msg": f"caller blocked at {a.desc} ({reason})"})
    elif a.exc is not None:
        raise HarnessError(f"caller crashed: {a.exc!r}")
    sample = {"store": "tables", "limit": limit, "indexed": bool(indexed), "keys": keys, "ops": log[:30]}
    out = {"violations": violations, "stats": dict(stats), "digest": w.digest(), "sched": w.sched_digest(),
           "sim_time": w.now, "steps": w.steps, "nontrivial": state["touched"], "sample": sample, "tail": list(w.tail)}
    w.shutdown()
    return out
