"""C15 - timers tick once per interval until stopped, and stop for good.

Real eval_sys_fn_timer / _call_periodic / .timerc driven through Klong source on a virtual-time
SimLoop passed as `.system` klongloop.  Callbacks are named Klong functions calling Python
recorders; scripts give per-tick duration, return value and action; the World decides the
dispatch latency of every deadline (exactly on it, within clock resolution before it, later).
Oracle: reference model of an ideal periodic timer evaluated over the recorded tick log.
"""
import traceback
import math

from sim.simloop import SimLoop
from sim.world import World, install_patches, HarnessError

PROPERTY = "C15"
LEVEL = "exploration"
RULE = ("each run = one or two timers with drawn interval {0,1,2,5}, awkward start time, per-tick script (duration relative to "
        "the interval, return value, action none/cancel self/cancel other/raise), external .timerc and callback redefinition "
        "at drawn times, and a drawn dispatch latency for every deadline (exact, early within clock resolution, +eps, +0.4i, "
        "+1.7i); non-trivial = at least one tick was dispatched exactly on/early before its deadline or after a slow callback, "
        "or a cancellation/redefinition happened; distinct = distinct digest of the (time, tick, action, result) log.  Also "
        "drawn: true return values other than 1, two cancellations in one callback invocation, the callback name holding a plain "
        "value for a while, a callback function that had another name before, a timer whose handle nobody keeps")
ASSUMPTIONS = [
    "tolerance of one clock resolution plus 4 ulp on boundary comparisons; a callback end that coincides with a boundary may arm either neighbour",
    "a callback that raises did not 'return true': the timer is over - no tick afterwards, .timerc then answers 0 (there is no live timer to stop)",
    "callbacks run on the klongloop, as production does; redefinition happens between ticks",
]
REAL_STUB = {
    "real": ["klongpy.sys_fn_timer (eval_sys_fn_timer, _call_periodic, KGTimerHandler, .timerc)", "KGFnWrapper dynamic resolution",
             "KlongInterpreter evaluating the callback source", "asyncio call_at/call_later/call_soon/TimerHandle (stdlib) on SimLoop"],
    "stub": ["event loop clock and selector -> SimLoop virtual time", "dispatch latency -> drawn by the World"],
}
EXPECTED_PROBES = ["probe_dispatch_exact", "probe_dispatch_early", "probe_dispatch_late_gt_interval", "probe_slow_callback_skips_boundary",
                   "probe_cancel_self_in_callback", "probe_cancel_other", "probe_external_cancel_live", "probe_external_cancel_dead",
                   "probe_redefine", "probe_callback_raised", "probe_interval0", "probe_true_return_other_than_1", "probe_true_return_that_is_a_list_or_string",
                   "probe_false_return_that_is_an_empty_list_or_string",
                   "probe_callback_name_rebound_to_value", "probe_tick_while_name_holds_a_value",
                   "probe_callback_function_known_under_another_name_before", "probe_timer_whose_handle_is_not_kept",
                   "probe_computed_interval", "probe_timer_created_again_after_raise", "probe_timer_created_again_after_stop", "probe_timerc_after_callback_raised", "probe_callback_left_through_a_base_exception",
                   "probe_cancel_from_another_thread", "probe_thread_cancel_overlaps_callback",
                   "line_preemptions_hot"]
WALL_CAP = {"quick": 300, "thorough": 3600}

STARTS = [0.0, 0.1, 0.3, 1e9 + 0.7, 7.25, 1234.567, 0.7, 2.0 / 3.0, 1e6 + 0.1]


def setup_worker():
    install_patches()
    import klongpy  # noqa


def plan(tier):
    if tier == "quick":
        return [("timers", {}, 20000, 250), ("xthread", {"xthread": 1}, 4000, 250)]
    # 'deep' goes beyond the bounds of the property text: up to three timers and twelve ticks each
    return [("timers", {}, 400000, 500), ("deep", {"deep": 1}, 150000, 500), ("xthread", {"xthread": 1}, 150000, 500)]


def _ulp(x):
    return math.ulp(abs(x)) if x else 5e-324


def scenario(ch, cfg):
    from klongpy import KlongInterpreter
    from klongpy.core import KGSym
    xthread = bool(cfg.get("xthread"))
    import threading as _threading
    import klongpy.sys_fn_timer as tm
    if hasattr(tm, "threading"):
        tm.threading = _threading            # (a worker process runs both configurations: undo the shim of an earlier run)
    w = World(ch, max_steps=4000, policy=2 if not xthread else None)
    w.now = ch.pick(STARTS, "start")
    if xthread:
        # .timerc issued by another thread than the timer's loop (a web handler runs on the io loop, an embedding
        # application on a thread of its own): source lines of the periodic runner and of cancel() are pre-emption points
        import klongpy.sys_fn_timer as tm
        from sim.world import ThreadingShim
        if hasattr(tm, "threading"):
            tm.threading = ThreadingShim(w)       # a lock in that module must be one the scheduler knows about
        w.enable_line_preemption([tm.__file__], 0, hot=("run", "cancel"), hot_budget=2 + ch.draw(3, "hotbudget"))
    loop = SimLoop(w, "kl")
    if xthread:
        def handle_starts(h):
            # the moment the loop begins to run a timer's periodic handle is the moment that tick "starts": a .timerc that
            # returns while the handle is already running overlaps the tick and may be ordered after it
            a = getattr(h, "_args", None)
            if a and isinstance(a[0], tm.KGTimerHandler):
                for T in timers:
                    if T["handle"] is a[0]:
                        T["stopped_when_run_started"] = T["stopped_at"] is not None
                        T["in_cb"] = True
                        ext_inflight["events"] += 1
        loop.on_handle_start = handle_starts
    klong = KlongInterpreter()
    klong[".system"] = {"ioloop": loop, "klongloop": loop, "closeEvent": None}
    res = loop._clock_resolution
    stats = w.stats
    ntimers = 1 + (ch.weighted([2, 2, 2], "ntimers") if cfg.get("deep") else ch.weighted([3, 2], "ntimers"))
    timers = []
    for t in range(ntimers):
        interval = ch.pick([1, 2, 5, 0], "interval")
        nt = 1 + ch.draw(12 if cfg.get("deep") else 6, "nticks")
        script = []
        for k in range(nt):
            dur = ch.weighted([5, 2, 1, 1], "dur")           # 0, 0.3i, 1.0i, 2.5i
            # "true" is any Klong-true number, not only 1
            # ... and any Klong-true value at all: a non-empty list (also [0]), a non-empty string - what :[c;a;b] takes for true
            ret = [1, 1, 2, 0.5, -1, 1, 1, "L12", "L0", "S"][ch.draw(10, "trueval")] if k < nt - 1 else 0
            if ret != 1 and ret:
                stats["probe_true_return_other_than_1"] += 1
            if isinstance(ret, str):
                stats["probe_true_return_that_is_a_list_or_string"] += 1
            if ch.chance(1, 10, "earlystop"):
                ret = 0
            if ret == 0 and ch.chance(1, 4, "falseval"):
                # Klong-false other than 0: the empty list, the empty string
                ret = ch.pick(["E", "ES"], "falsekind")
                stats["probe_false_return_that_is_an_empty_list_or_string"] += 1
            act = ch.weighted([10, 2, 2 if ntimers > 1 else 0, 1, 1], "act")   # none, cancel self, cancel other, raise, cancel self twice
            script.append({"dur": [0.0, 0.3, 1.0, 2.5][dur] * (interval or 1), "ret": ret, "act": act})
        # the interval as the program writes it: a literal, or something computed (a numpy integer, a whole real)
        form = ch.weighted([4, 2, 1, 1], "ivform")
        ivsrc = [str(interval), f"{interval + 3}-3", f"ivs@{[0, 1, 2, 5].index(interval)}", f"{interval * 2}%2"][form]
        if form:
            stats["probe_computed_interval"] += 1
        timers.append({"id": t, "interval": interval, "ivsrc": ivsrc, "script": script, "ticks": [], "arms": [], "timerc": [],
                       "start": None, "handle": None, "stopped_at": None, "raised_at": None, "version": 1})
    if any(t["interval"] == 0 for t in timers):
        stats["probe_interval0"] += 1
    imax = max([t["interval"] for t in timers] + [1])
    log = []
    violations = []
    ext_inflight = {"n": 0, "events": 0}     # evaluations in flight on the loop / number of callback starts and ends so far

    # ----- Python recorders installed through the public API
    def tick(x, y):           # Klong passes arguments by the parameter names x, y, z
        tid, version = int(x), y
        T = timers[tid]
        k = len(T["ticks"])
        sc = T["script"][k] if k < len(T["script"]) else {"dur": 0.0, "ret": 0, "act": 0}
        entry = {"k": k, "t": w.now, "version": int(version), "expected_version": T["version"], "sc": sc, "in_window": bool(T.get("unbound")),
                 "after_stop": (T["stopped_at"] is not None) if not xthread else bool(T.get("stopped_when_run_started")),
                 "after_raise": T["raised_at"] is not None}
        T["ticks"].append(entry)
        T["in_cb"] = True
        log.append(f"tick {tid}#{k} t={w.now!r} v={int(version)}")
        w.note(log[-1])
        if sc["dur"]:
            w.now += sc["dur"]
        return sc["act"]

    def ret(x):
        tid = int(x)
        T = timers[tid]
        e = T["ticks"][-1]
        e["end"] = w.now
        spec = e["sc"]["ret"]
        r = 0 if spec in (0, "E", "ES") else 1           # Klong's truth of the value
        e["ret"] = r
        if not r and T["stopped_at"] is None:
            T["stopped_at"] = ("ret0", len(T["ticks"]) - 1, w.now)
        loop.call_soon(probe, tid, len(T["ticks"]) - 1)
        if isinstance(spec, str):
            import numpy as np
            return {"L12": np.array([1, 2]), "L0": np.array([0]), "S": "go", "E": np.array([]), "ES": ""}[spec]
        return spec

    def rc(x, y, z):
        """records the result z of a .timerc on timer x issued by y."""
        tid, who, v = int(x), y, z
        T = timers[tid]
        live = T["stopped_at"] is None and T["start"] is not None
        T["timerc"].append({"t": w.now, "who": str(who), "ret": int(v), "model_live": live, "after_raise": T["raised_at"] is not None,
                            "unjudged": bool(T.get("xc_inflight"))})
        log.append(f"timerc {tid} by {who} -> {int(v)} (model live={live}) t={w.now!r}")
        w.note(log[-1])
        if int(v) == 1 and T["stopped_at"] is None:
            T["stopped_at"] = ("timerc", len(T["ticks"]) - 1, w.now)
        return int(v)

    class _Abort(BaseException):
        """a callback left through something that is not an Exception (Klong's own .x, an interrupt, a cancellation)"""

    def boom():
        if ch.draw(3, "boomkind") == 0:
            stats["probe_callback_left_through_a_base_exception"] += 1
            raise _Abort("scripted callback failure")
        raise RuntimeError("scripted callback failure")

    def raised(x):
        # "for as long as the callback returns true": a callback that fails did not return true - the timer is over, it never
        # ticks again and there is nothing left for .timerc to stop
        T = timers[int(x)]
        if T["raised_at"] is None:
            T["raised_at"] = len(T["ticks"]) - 1
            if T["stopped_at"] is None:
                T["stopped_at"] = ("raise", len(T["ticks"]) - 1, w.now)
        stats["probe_callback_raised"] += 1
        return 0

    def probe(tid, k):
        """runs right after the callback's handle finished: what did the timer arm?"""
        T = timers[tid]
        T["in_cb"] = False
        ext_inflight["events"] += 1
        h = T["handle"]
        d = getattr(h, "delegate", None)
        when = getattr(d, "_when", None) if d is not None else None
        cancelled = d is None or d._cancelled
        T["arms"].append({"after_tick": k, "when": when, "armed": (d is not None and not cancelled), "t": w.now})

    klong["tick"] = tick
    klong["ret"] = ret
    klong["rc"] = rc
    klong["boom"] = boom
    klong["raised"] = raised

    def cb_source(tid, version, cbname=None):
        other = (tid + 1) % ntimers if tid < ntimers else tid
        cbname = cbname or timers[tid].get("cbname") or f"cb{tid}"
        # a::tick(..) returns the scripted action: 1 cancel self, 2 cancel other, 3 raise
        return (f'{cbname}::{{[a];a::tick({tid};{version});'
                f':[a=1;rc({tid};"self";.timerc(th{tid}));:[a=2;rc({other};"other";.timerc(th{other}));:[a=3;{{raised({tid});boom()}}();'
                f':[a=4;{{rc({tid};"self";.timerc(th{tid}));rc({tid};"self";.timerc(th{tid}))}}();0]]]];'
                f'ret({tid})}}')

    # ----- external events (cancel / redefine) at drawn virtual times
    t0 = w.now
    externals = []
    for T in timers:
        if ch.chance(1, 3, "extcancel"):
            at = t0 + ch.pick([0.5, 1.0, 2.0, 2.5, 3.0, 4.0, 6.5, 10.0, 11.0], "extat") * (T["interval"] or 1) / 2
            externals.append(("cancel", T["id"], at))
            if ch.chance(1, 3, "extcancel2"):
                externals.append(("cancel", T["id"], at + ch.pick([0.0, 0.25, 3.0], "ext2")))
        if ch.chance(1, 4, "redef"):
            at = t0 + ch.pick([0.5, 1.5, 2.5, 4.5, 7.0], "redefat") * (T["interval"] or 1)
            if ch.chance(1, 3, "redef_via_value"):
                # the name holds a plain value for a while (ticks inside that window are not judged for the definition
                # they run), then a function again: from then on every tick must run that definition
                externals.append(("unbind", T["id"], at))
                at += ch.pick([0.6, 1.6, 3.2], "unbound_for") * (T["interval"] or 1)
            externals.append(("redef", T["id"], at))
        elif ch.chance(1, 3, "recreate"):
            externals.append(("recreate", T["id"], t0 + ch.pick([3.0, 6.0, 9.0, 14.0], "recreate.at") * (T["interval"] or 1)))


    def recreate(tid):
        """The same .timer line once more, after its first timer is gone (stopped, or dead because its callback raised):
        a new timer like any other."""
        T = timers[tid]
        if T.get("dead") or T["start"] is None or (T["stopped_at"] is None and T["raised_at"] is None) or (T.get("in_cb") and T["raised_at"] is None):
            return
        new = len(timers)
        nt = 1 + ch.draw(4, "re.nticks")
        script = [{"dur": 0.0, "ret": 1 if k < nt - 1 else 0, "act": 0} for k in range(nt)]
        T2 = {"id": new, "interval": T["interval"], "ivsrc": T["ivsrc"], "script": script, "ticks": [], "arms": [], "timerc": [],
              "start": None, "handle": None, "stopped_at": None, "raised_at": None, "version": 1, "cbname": f"cb{tid}"}
        timers.append(T2)
        stats["probe_timer_created_again_after_raise" if T["raised_at"] is not None else "probe_timer_created_again_after_stop"] += 1
        klong(cb_source(new, 1))
        T2["start"] = w.now
        klong(f'th{new}::.timer("t{tid}";{T["ivsrc"]};cb{tid})')
        log.append(f'again: th{new}::.timer("t{tid}";{T["ivsrc"]};cb{tid}) t={w.now!r}')
        w.note(log[-1])
        h = klong._context[KGSym(f"th{new}")]
        if not hasattr(h, "delegate"):
            violations.append({"sig": "C15:timer-not-created", "msg": f'the second .timer("t{tid}";{T["ivsrc"]};cb{tid}) returned {h!r}'})
            T2["dead"] = True
            return
        T2["handle"] = h
        d = h.delegate
        T2["arms"].append({"after_tick": -1, "when": getattr(d, "_when", None), "armed": d is not None and not getattr(d, "_cancelled", False), "t": w.now})
        if T2["arms"][-1]["when"] is None and T2["interval"] > 0:
            violations.append({"sig": "C15:timer-created-again-is-not-armed", "msg": f'.timer("t{tid}";{T["ivsrc"]};cb{tid}) evaluated again at t={w.now!r}, after the '
                               f'first timer of that line had {"died in a raising callback" if T["raised_at"] is not None else "been stopped"}: the new timer has no deadline'})

    def do_external(kind, tid):
        T = timers[tid]
        if kind == "recreate":
            return recreate(tid)
        if kind == "cancel":
            live = T["stopped_at"] is None
            stats["probe_external_cancel_live" if live else "probe_external_cancel_dead"] += 1
            ext_inflight["n"] += 1
            ext_inflight["events"] += 1
            try:
                klong(f'rc({tid};"ext";.timerc(th{tid}))')
            finally:
                ext_inflight["n"] -= 1
        elif kind == "unbind":
            T["unbound"] = True
            stats["probe_callback_name_rebound_to_value"] += 1
            klong(f"cb{tid}::0")
            log.append(f"cb{tid}::0 t={w.now!r}")
        else:
            T["unbound"] = False
            T["version"] += 1
            stats["probe_redefine"] += 1
            klong(cb_source(tid, T["version"]))
            log.append(f"redefine cb{tid} v{T['version']} t={w.now!r}")

    alias_history = ch.draw(4, "alias_history") == 0
    forget = ch.draw(4, "fire_and_forget") == 0
    ff = {"ticks": [], "start": None}

    def ffrec(x):
        ff["ticks"].append(w.now)
        return 1 if len(ff["ticks"]) < 3 else 0
    klong["ffrec"] = ffrec

    def boot():
        klong("ivs::[0 1 2 5]")
        for T in timers:
            if alias_history and T["id"] == 0:
                # the callback's function object has a past: it was first known as pre0 and served a timer that is gone;
                # then it got its present name and pre0 was given to something else.  The timer below is created on
                # cb0 and must follow cb0 - now and after redefinitions
                stats["probe_callback_function_known_under_another_name_before"] += 1
                klong(cb_source(0, 1).replace("cb0::", "pre0::", 1))
                klong('thx::.timer("gone";1;pre0)')
                klong(".timerc(thx)")
                klong("cb0::pre0")
                klong(cb_source(0, -1).replace("cb0::", "pre0::", 1))
                continue
            klong(cb_source(T["id"], 1))
        if forget:
            # a timer nobody keeps a handle of (.timer("flush";300;flush) as a statement): it ticks all the same
            stats["probe_timer_whose_handle_is_not_kept"] += 1
            klong("cbff::{ffrec(0)}")
            ff["start"] = w.now
            klong('.timer("ff";1;cbff);0')
        for T in timers:
            T["start"] = w.now
            klong(f'th{T["id"]}::.timer("t{T["id"]}";{T["ivsrc"]};cb{T["id"]})')
            if not hasattr(klong._context[KGSym(f'th{T["id"]}')], "delegate"):
                violations.append({"sig": "C15:timer-not-created", "msg": f'.timer("t{T["id"]}";{T["ivsrc"]};cb{T["id"]}) returned '
                                   f'{klong._context[KGSym("th" + str(T["id"]))]!r} instead of a timer (interval {T["interval"]} written as {T["ivsrc"]})'})
                T["dead"] = True
                continue
            T["handle"] = klong._context[KGSym(f'th{T["id"]}')]
            d = T["handle"].delegate
            T["arms"].append({"after_tick": -1, "when": getattr(d, "_when", None), "armed": True, "t": w.now})
        for kind, tid, at in externals:
            loop.call_at(at, do_external, kind, tid)

    loop.call_soon(boot)
    xactors = []
    if xthread:
        import klongpy.sys_fn_timer as tm

        def xcancel(tid, at, n):
            T = timers[tid]
            w.block_until(lambda: w.now >= at and T["handle"] is not None, "until-its-time")
            for j in range(n):
                busy = any(T2.get("in_cb") for T2 in timers) or ext_inflight["n"] > 0
                ev0 = ext_inflight["events"]
                live = T["stopped_at"] is None
                T["xc_inflight"] = True
                try:
                    v = tm.eval_sys_fn_cancel_timer(T["handle"])        # what .timerc(th) does, without the interpreter
                    T["xc_inflight"] = False
                except Exception as e:   # noqa
                    violations.append({"sig": f"C15:timerc-raises:{type(e).__name__}", "msg": f"timer {tid}: .timerc issued by another thread at t={w.now!r} "
                                       f"raised {e!r} instead of answering 0 or 1"})
                    return
                busy = busy or any(T2.get("in_cb") for T2 in timers) or ext_inflight["n"] > 0 or ext_inflight["events"] != ev0
                # a cancellation that overlaps an invocation of the callback: whether the timer counted as live is
                # not judged (the callback may just be returning false); what it must never do is tick afterwards
                T["timerc"].append({"t": w.now, "who": "thread", "ret": int(v), "model_live": live, "unjudged": busy,
                                    "after_raise": T["raised_at"] is not None})
                stats["probe_cancel_from_another_thread"] += 1
                if busy:
                    stats["probe_thread_cancel_overlaps_callback"] += 1
                log.append(f"timerc {tid} by thread -> {int(v)} (model live={live}, overlaps callback={busy}) t={w.now!r}")
                w.note(log[-1])
                if int(v) == 1 and T["stopped_at"] is None:
                    T["stopped_at"] = ("timerc", len(T["ticks"]) - 1, w.now)
                w.yield_point("between-cancels")
        for T in timers:
            if ch.chance(2, 3, "xcancel"):
                at = t0 + ch.pick([0.5, 1.0, 2.0, 2.5, 3.0, 4.0, 6.5, 10.0], "xat") * (T["interval"] or 1) / 2
                xactors.append(w.spawn(f"xc{T['id']}", lambda T=T, at=at, n=1 + ch.draw(2, "xn"): xcancel(T["id"], at, n)))

    # ----- dispatch latency policy
    lat = {"n": 0}

    def advance(world, t):
        m = ch.weighted([4, 3, 1, 1, 1], "latency")
        if m == 0:
            stats["probe_dispatch_exact"] += 1
            return t
        if m == 1:
            early = t - res * 0.5
            if early > world.now and early < t:
                stats["probe_dispatch_early"] += 1
                return early
            stats["probe_dispatch_exact"] += 1
            return t
        if m == 2:
            return t + 1e-7
        if m == 3:
            return t + 0.4 * imax
        stats["probe_dispatch_late_gt_interval"] += 1
        return t + 1.7 * imax

    w.advance_hook = advance
    # exception handler: scripted failures end up here (asyncio logs them), nothing to print
    loop_errors = []

    def on_loop_exception(l, ctx):
        exc = ctx.get("exception")
        if isinstance(exc, (RuntimeError, _Abort)) and "scripted callback failure" in str(exc):
            return
        if xthread and isinstance(exc, AttributeError) and "'cancel'" in str(exc):
            # two cancellations of one timer racing inside KGTimerHandler.cancel (both saw a delegate, one cleared it): the
            # loser fails on the loop, after its callback had returned false - logged by asyncio, nothing ticks: a diagnostic
            stats["probe_cancel_race_exception_on_loop"] += 1
            return
        tb = traceback.extract_tb(exc.__traceback__) if exc is not None else []
        if tb and tb[-1].filename.endswith("sys_fn_timer.py"):
            # the periodic runner itself failed on what an (unfailing) callback returned
            runner_errors.append(f"{type(exc).__name__}: {str(exc)[:120]}")
            return
        loop_errors.append(f"{ctx.get('message')}: {exc!r}")
    runner_errors = []
    loop.set_exception_handler(on_loop_exception)
    loop.start()
    reason = w.run(max_time=t0 + 400.0)
    if loop_errors:
        w.shutdown()
        raise HarnessError(f"unexpected exception on the loop: {loop_errors[:2]}")
    # ----- oracle
    if runner_errors:
        violations.append({"sig": "C15:runner-fails-on-the-value-a-callback-returned", "msg": f"the periodic runner raised {runner_errors[0]} after a callback "
                           f"that returned normally (return values of the scripts: {[[s['ret'] for s in T['script']] for T in timers]})"})
    if forget and len(ff["ticks"]) != 3:
        violations.append({"sig": "C15:timer-without-kept-handle-does-not-tick", "msg": f'.timer("ff";1;cbff) as a statement (handle not kept), callback true '
                           f"twice then false: expected 3 invocations, saw {len(ff['ticks'])} at {ff['ticks']} (created at {ff['start']!r}, run ended {w.now!r})"})
    for T in timers:
        tid, i, start = T["id"], T["interval"], T["start"]
        if T.get("dead"):
            continue
        if start is None:
            raise HarnessError("timer was never created")
        ticks = T["ticks"]
        arms = {a["after_tick"]: a for a in T["arms"]}
        tolb = lambda x: res + 4 * _ulp(max(abs(x), abs(start), 1.0)) + 1e-12   # noqa
        # (1) nothing after stop / successful timerc
        for e in ticks:
            if e["after_stop"]:
                why = T["stopped_at"]
                sig = "C15:tick-after-timerc-in-own-callback" if (why[0] == "timerc" and any(
                    c["who"] == "self" and c["ret"] == 1 for c in T["timerc"])) else f"C15:tick-after-{why[0]}"
                violations.append({"sig": sig, "msg": f"timer {tid} (interval {i}) ticked at t={e['t']!r} (tick #{e['k']}) although it was stopped by {why[0]} "
                                   f"after tick #{why[1]} at t={why[2]!r}"})
                break
        # (2) .timerc result == model liveness
        for c in T["timerc"]:
            if c.get("unjudged"):
                continue
            if c["after_raise"]:
                stats["probe_timerc_after_callback_raised"] += 1
            if c["ret"] != (1 if c["model_live"] else 0):
                violations.append({"sig": f"C15:timerc-returns-{c['ret']}-for-{'live' if c['model_live'] else 'dead'}-timer:{c['who']}",
                                   "msg": f"timer {tid}: .timerc issued by {c['who']} at t={c['t']!r} returned {c['ret']}, model says live={c['model_live']}"})
                break
        # (2b) a timer can be stopped by .timerc at most once, however the cancellations overlap
        wins = [c for c in T["timerc"] if c["ret"] == 1]
        if len(wins) > 1:
            violations.append({"sig": "C15:two-timerc-report-success-for-one-timer", "msg": f"timer {tid}: .timerc returned 1 {len(wins)} times "
                               f"(issued by {[c['who'] for c in wins]} at t={[c['t'] for c in wins]}); a timer is live until it is stopped once"})
        # (3) version re-resolution
        for e in ticks:
            if e["in_window"]:
                stats["probe_tick_while_name_holds_a_value"] += 1
                continue
            if e["version"] != e["expected_version"]:
                violations.append({"sig": "C15:stale-callback-definition", "msg": f"timer {tid} tick #{e['k']} ran definition v{e['version']}, latest is v{e['expected_version']}"})
                break
        # (4) boundaries
        if i > 0:
            last_k = 0
            for n, e in enumerate(ticks):
                if e["after_stop"]:
                    break
                armed = arms.get(n - 1)
                if armed is None or armed["when"] is None:
                    if n > 0 and not e["after_raise"]:
                        violations.append({"sig": "C15:tick-without-armed-deadline", "msg": f"timer {tid} tick #{n}"})
                    continue
                D = armed["when"]
                # deadline must be a boundary start + k*i
                kf = (D - start) / i
                k = round(kf)
                if abs(D - (start + k * i)) > tolb(D) + abs(k) * _ulp(i):
                    violations.append({"sig": "C15:deadline-not-on-a-boundary", "msg": f"timer {tid} interval {i} start {start!r}: tick #{n} armed for {D!r} = start+{kf!r}*i"})
                    break
                if k <= last_k:
                    violations.append({"sig": "C15:second-tick-for-same-boundary",
                                       "msg": f"timer {tid} interval {i} start {start!r}: tick #{n} was armed for boundary k={k} ({D!r}) but boundary k={last_k} had already fired "
                                       f"(previous tick dispatched at {ticks[n - 1]['t']!r}, ended {ticks[n - 1].get('end')!r})"})
                    break
                if n > 0:
                    pe = ticks[n - 1].get("end", ticks[n - 1]["t"])
                    # first boundary after the end of the previous callback
                    kmin = math.floor((pe - start) / i + 1e-9) + 1
                    b_prev = start + (k - 1) * i
                    if b_prev > pe + tolb(pe) and k - 1 > last_k:
                        violations.append({"sig": "C15:boundary-skipped",
                                           "msg": f"timer {tid} interval {i}: after a callback ending at {pe!r} the timer armed boundary k={k} ({D!r}) although k={k - 1} ({b_prev!r}) was still ahead"})
                        break
                    if k > last_k + 1:
                        stats["probe_slow_callback_skips_boundary"] += 1
                    if D < pe - tolb(pe) - 1e-9 and k < kmin - 1:
                        violations.append({"sig": "C15:armed-in-the-past", "msg": f"timer {tid}: after callback end {pe!r} armed {D!r}"})
                        break
                if e["t"] < D - tolb(D):
                    violations.append({"sig": "C15:tick-before-boundary", "msg": f"timer {tid}: tick #{n} dispatched at {e['t']!r}, boundary {D!r}"})
                    break
                last_k = k
        # (5) a live timer must be armed after a true return (until stopped)
        for n, e in enumerate(ticks):
            if e["after_stop"] or e["after_raise"] or "ret" not in e:
                continue
            a = arms.get(n)
            stopped_here = T["stopped_at"] is not None and T["stopped_at"][1] <= n
            if a is not None and e["ret"] and not stopped_here and not a["armed"] and T["raised_at"] is None:
                violations.append({"sig": "C15:timer-died-after-true-return", "msg": f"timer {tid}: callback returned true at tick #{n} but nothing is armed"})
                break
        # (6) a timer nobody stopped keeps a deadline: the world cannot fall quiet while one is live
        if reason == "quiescent" and T["stopped_at"] is None and T["raised_at"] is None and not violations:
            violations.append({"sig": "C15:live-timer-stops-ticking", "msg": f"timer {tid} (interval {i}, created at t={start!r}) was never stopped - its callback "
                               f"never returned false, no .timerc succeeded, nothing raised - yet after {len(ticks)} tick(s) nothing is scheduled any more "
                               f"(run fell quiet at t={w.now!r})"})
        for c in T["timerc"]:
            if c["who"] == "self" and c["ret"] == 1:
                stats["probe_cancel_self_in_callback"] += 1
            if c["who"] == "other":
                stats["probe_cancel_other"] += 1
    if reason == "steps":
        violations.append({"sig": "C15:does-not-settle", "msg": f"run still busy after {w.steps} steps at t={w.now!r}: {log[-4:]}"})
    nontrivial = bool(stats.get("probe_dispatch_exact") or stats.get("probe_dispatch_early") or any(T["timerc"] for T in timers)
                      or stats.get("probe_redefine"))
    sample = {"start": t0, "timers": [{"interval": T["interval"], "script": [(s["dur"], s["ret"], ["none", "cancel-self", "cancel-other", "raise", "cancel-self-twice"][s["act"]])
                                                                             for s in T["script"]]} for T in timers],
              "externals": [(k, tid, at) for k, tid, at in externals], "log": log[:40], "end": reason}
    out = {"violations": violations, "stats": dict(stats), "digest": w.digest(), "sched": w.sched_digest(),
           "sim_time": w.now - t0, "steps": w.steps, "nontrivial": nontrivial, "sample": sample, "tail": list(w.tail)}
    w.shutdown()
    return out
