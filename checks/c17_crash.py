"""C17 - a completed key-value set survives a crash; an interrupted one harms no other key.

Real KeyValueStorage.set path over SimFS (raw level, below io.BufferedWriter) inside a World
(so that 'set returned' is an event of the same trace as the file-system calls).  For each
generated history the checker enumerates every crash point (every prefix of the FS-operation
trace) x every persistence outcome allowed by model A-FS, materialises each crash image and
opens a fresh KeyValueStorage on it.

Second configuration 'realkill': a forked child runs the history on a real temp directory and
is killed (os._exit) at every operation boundary; the parent re-opens the directory.
"""
import io
import os
import shutil
import tempfile

from sim.canon import canon, show
from sim.simfs import SimFS, crash_images
from sim.storeenv import install_fs, lazy_cache, sim_cache, VTime
from sim.values import gen_literal, big_literal, exact_size_literal, BOUNDARY_SIZES
from sim.world import World, install_patches, HarnessError

PROPERTY = "C17"
LEVEL = "fault_enumeration"
RULE = ("each case = a seeded history of 1-4 sets over 1-3 keys (new key, overwrite, nested key creating directories, values "
        "below and above the 8 KiB write buffer); for each case EVERY crash point (prefix of the recorded file-system "
        "operation trace, incl. after the last return) x every persistence outcome of model A-FS (un-synced metadata "
        "journal prefix; per file un-synced data none / 1 byte / half / all-but-one / all) is materialised and a fresh "
        "store opened on it; evaluations = crash images checked; a case is non-trivial when it has >= 2 sets or a nested "
        "key; distinct = distinct (trace shape, key pattern) digests.  Drawn per case: one or two live store objects, gets "
        "between the sets, reopen between sets, a concurrent reader, a second writer, somebody opening a store object at an "
        "arbitrary moment, one injected I/O error (fsync/write/create), values on buffer and 64 KiB boundaries, Unicode / case "
        "variant keys; names a set touches besides its own file are occupied by keys in a second pass; never-set keys on the "
        "path of nested keys are read in every image")
EXHAUSTIVE_NOTE = ("crash points and persistence outcomes are enumerated exhaustively per generated history (at most one file "
                   "deviates from 'all un-synced data persisted' per image, plus the all-lost image); histories are sampled")
ASSUMPTIONS = [
    "A-FS: metadata ops journalled in program order; fsync(fd) commits the journal and the file's content; un-synced data persists wholly, not at all or as a byte prefix; data persists only with the preceding metadata of its file",
    "a directory entry is made durable by fsync of the file (ext4/xfs behaviour); the stricter 'directory needs its own fsync' model is not used to raise alarms",
    "realkill: a killed process loses no page cache, so that configuration judges only isolation between keys and completion-before-return, not durability",
]
REAL_STUB = {
    "real": ["klongpy.db.sys_fn_kvs.KeyValueStorage", "klongpy.db.file_cache.FileCache", "klongpy.db.helpers (pickle)",
             "io.BufferedWriter/BufferedReader", "realkill: real tmp directory, real ThreadPoolExecutor, real os.fsync"],
    "stub": ["open/os in file_cache -> SimFS (raw level) with operation trace", "lock/executor -> SimLock/SimExecutor",
             "power loss -> crash images derived from the trace under A-FS", "realkill: process kill = os._exit at an op boundary"],
}
EXPECTED_PROBES = ["probe_set_issued_on_an_event_loop_thread", "probe_nested_key", "probe_overwrite", "probe_big_value", "probe_crash_inside_set", "probe_unsynced_data_images",
                   "probe_store_opened_at_an_arbitrary_moment", "probe_never_set_prefix_key_read_after_crash", "probe_two_handles",
                   "probe_second_writer_set", "probe_set_failed_on_io_error", "probe_reopen_between_sets"]
WALL_CAP = {"quick": 400, "thorough": 3600}

_fc = None
_kvs = None
_klong = None


def setup_worker():
    global _fc, _kvs, _klong
    install_patches()
    import klongpy.db.file_cache as fc
    import klongpy.db.sys_fn_kvs as kvs
    from klongpy import KlongInterpreter
    _fc = fc
    _kvs = kvs
    _klong = KlongInterpreter()


def plan(tier):
    if tier == "quick":
        return [("simfs", {}, 360, 10), ("realkill", {"real": 1}, 48, 3), ("handles", {"handles": 2}, 160, 10), ("siblings", {"siblings": 1}, 160, 10)]
    return [("simfs", {}, 40000, 50), ("realkill", {"real": 1}, 1600, 10), ("handles", {"handles": 2}, 20000, 50), ("siblings", {"siblings": 1}, 20000, 50)]


# keys are file names: "k1.tmp" / "k1~" style siblings are ordinary, distinct keys
# incl. keys that differ only in their Unicode spelling (composed / decomposed e-acute, K / KELVIN SIGN) or in case:
# distinct strings are distinct keys
KEYS = ["k1", "k2", "dir/k3", "dir/sub/k4", "other/k5", "k1.tmp", "dir/k3.tmp", "k2.bak",
        "café", "café", "K9", "K9", "k9"]
ROOT = "/kv"


def gen_history(ch, reuse=False):
    nkeys = 1 + ch.draw(2 if reuse else 3, "nkeys")
    keys = []
    pool = list(KEYS)
    for _ in range(nkeys):
        keys.append(pool.pop(ch.draw(len(pool), "key")))
    nsets = (2 + ch.draw(4, "nsets")) if reuse else (1 + ch.draw(4, "nsets"))
    hist = []
    # some histories write "block values": same length, built from a few 4 KiB blocks, so that successive values of a key
    # share leading blocks, differ only in leading blocks, or differ only in the last byte (logs, records with a version
    # field): whatever a writer does to avoid rewriting equal parts, the file ends up holding the value that was set
    blocks = ch.draw(3 if reuse else 8, "blockvals") == 0
    for i in range(nsets):
        k = keys[ch.draw(len(keys), "which")]
        if blocks:
            lit = '"' + "".join(ch.pick("AB", "blk") * 4096 for _ in range(3)) + ch.pick("123", "blk.tail") + '"'
            hist.append((k, lit))
            continue
        earlier = [l for kk, l in hist if kk == k]
        if reuse and len(earlier) >= 1 and ch.draw(2, "reuse"):
            # the application writes a value this key already had (A, B, A): "nothing changed" shortcuts must not skip it
            hist.append((k, earlier[max(0, len(earlier) - 2)]))
            continue
        if ch.chance(1, 8, "big"):
            lit = big_literal(ch)
        elif nsets <= 2 and ch.chance(1, 24, "huge"):
            lit = "!140000"          # pickles to > 1 MiB: larger than the store's cache limit
        elif ch.chance(1, 10, "boundary"):
            # serialized size exactly on / next to a buffer or chunk boundary (8 KiB, multiples of 64 KiB)
            lit = exact_size_literal(ch.pick(BOUNDARY_SIZES, "bsize"))
        else:
            lit = gen_literal(ch, allow_undef=True)
        hist.append((k, lit))
    return hist


def _values(hist):
    return [_klong(lit) for _, lit in hist]


def scenario(ch, cfg):
    if cfg.get("real"):
        return scenario_real(ch, cfg)
    hist = gen_history(ch, reuse=bool(cfg.get("handles")))
    out = _run_simfs(ch, cfg, hist, 0)
    foreign = out.pop("foreign", [])
    if foreign and not out["violations"]:
        # The set of some key touched other names under the store root (a scratch / temporary file?).  Keys are file
        # names, so those names are keys too: occupy them with values first and run the same history again - the
        # "harms no other key" oracle then applies to them.
        extra = [(p, f'"occupied-{i}"') for i, p in enumerate(sorted(foreign)[:3])]
        out2 = _run_simfs(ch, cfg, extra + hist, len(extra))
        out2.pop("foreign", None)
        out2["evaluations"] += out["evaluations"]
        out2["stats"]["probe_foreign_paths_occupied"] = out2["stats"].get("probe_foreign_paths_occupied", 0) + 1
        out2["sample"]["foreign_paths_touched_by_set"] = sorted(foreign)[:5]
        return out2
    return out


def _run_simfs(ch, cfg, hist, nextra):
    fc, kvs = _fc, _kvs
    # optionally a second writer thread with one or two sets of its own on the same keys (overlapping sets)
    n1 = len(hist)
    hist2 = []
    # one or two live handles (store objects) on the same directory
    nh = 2 if cfg.get("handles") else 1 + (ch.draw(3, "handles") == 0)
    sib = bool(cfg.get("siblings"))
    if sib:
        # "siblings" configuration: two writers on one store object whose keys live in the same directory (which need not
        # exist yet), and one injected I/O error - whatever a failing set does about what it has created so far, the other
        # writer's completed set survives it
        nh = 1
        if not any("/" in k for k, _ in hist[nextra:]):
            hist = list(hist)
            hist[nextra] = (ch.pick(["dir/k3", "dir/sub/k4", "other/k5"], "sibdir"), hist[nextra][1])
    if sib or ch.draw(3, "writer2") == 0:
        for _ in range(1 + ch.draw(2, "n2")):
            # through ONE store object the sets of a key are coordinated by its cache, so the second writer may use
            # the first writer's keys; two store objects do not coordinate (nothing promises that), so there the
            # second writer keeps to keys of its own
            k2 = hist[nextra + ch.draw(n1 - nextra, "k2")][0] if nh == 1 else ch.pick(["w2/a", "w2b"], "k2own")
            if sib:
                k2 = [k for k, _ in hist[nextra:] if "/" in k][0]
            if nh == 1 and "/" in k2 and (sib or ch.draw(2, "k2sibling") == 0):
                # ... or a key of its own in the same (possibly not yet existing) directory as a key of the first writer
                k2 = k2.rsplit("/", 1)[0] + "/w2sib"
            hist2.append((k2, gen_literal(ch, allow_undef=False, tag="v2")))
    hist = list(hist) + hist2
    vals = _values(hist)
    w = World(ch, max_steps=30000, policy=ch.weighted([1, 1, 2], "policy"))
    fs = SimFS(w, ROOT)
    install_fs(fc, fs)
    stores = [kvs.KeyValueStorage(ROOT) for _ in range(nh)]
    for st in stores:
        sim_cache(st.cache, w)
    hsel = [0 if i < nextra else ch.draw(nh, "hsel") for i in range(len(hist))]
    cur = {"store": stores[0]}
    stats = w.stats
    if nh == 2:
        stats["probe_two_handles"] += 1
    # gets issued by the application between the sets, through any handle (they populate that handle's cache)
    pregets = {i: [(ch.draw(nh, "pgh"), hist[ch.draw(len(hist), "pgk")][0]) for _ in range(ch.draw(3, "npg"))]
               for i in range(nextra, len(hist)) if ch.draw(3, "preget") == 0 or (cfg.get("handles") and ch.draw(2, "preget2"))}
    # at most one injected I/O error: the k-th fsync / write / create of the (non-prepended) history fails
    iofault = None
    if sib or ch.draw(5, "iofault") == 0:
        iofault = {"kind": ch.pick(["creat", "creat", "fsync", "write"] if sib else ["fsync", "fsync", "write", "creat"], "iokind"), "at": ch.draw(3, "ioat"), "seen": 0, "armed": False, "fired": False}

        def hook(kind, path):
            if iofault["armed"] and not iofault["fired"] and kind == iofault["kind"]:
                if iofault["seen"] == iofault["at"]:
                    iofault["fired"] = True
                    stats[f"fs_fault_{kind}_EIO"] += 1
                    import errno as _errno
                    raise OSError(_errno.EIO if kind != "write" else _errno.ENOSPC, "injected I/O error")
                iofault["seen"] += 1
        fs.fault_hook = hook
    # a short write(2): the kernel accepts only part of one buffer (nearly full disk, quota, interrupted system call on a
    # network file system).  Not an error: whoever writes must look at the count and write the rest - a set that returns
    # afterwards promises its whole value as usual
    if ch.draw(6, "shortwrite") == 0:
        sw = {"at": ch.draw(3, "sw.at"), "seen": 0, "frac": 1 + ch.draw(7, "sw.frac")}

        def short_hook(path, n):
            sw["seen"] += 1
            if sw["seen"] - 1 == sw["at"]:
                stats["fs_fault_short_write"] += 1
                return max(1, n * sw["frac"] // 8)
            return None
        fs.short_write_hook = short_hook
    # between two sets the application may drop its store object and open a new one on the same directory
    # (nothing is cached then: the next get of an existing key is a real load)
    reopen_before = {i for i in range(1, len(hist)) if ch.draw(4, "reopen") == 0}

    refused = set()
    # where the set is issued: a plain thread, or a thread that is running an asyncio event loop (Klong code run by the
    # REPL, a timer callback, an IPC / web handler all evaluate on the klong loop): "once a set has returned" is the same promise
    on_loop = ch.draw(3, "set-on-event-loop") == 0 and not os.environ.get("VERIF_C17_NO_LOOP")
    if on_loop:
        stats["probe_set_issued_on_an_event_loop_thread"] += 1

    def do_set(store, k, v):
        if not on_loop:
            return store.set(k, v)
        import asyncio

        async def co():
            return store.set(k, v)
        loop = asyncio.new_event_loop()
        try:
            return loop.run_until_complete(co())
        finally:
            loop.close()

    def writer2():
        for j, (k, lit) in enumerate(hist2):
            i = n1 + j
            w.yield_point("writer2")
            fs.mark("inv", i)
            try:
                do_set(stores[hsel[i]], k, vals[i])
            except OSError as e:
                if iofault is None or not iofault["fired"] or "injected" not in str(e):
                    raise
                fs.mark("failed", i)
                continue
            fs.mark("ret", i)
            stats["probe_second_writer_set"] += 1

    def writer():
        for i, ((k, lit), v) in enumerate(zip(hist[:n1], vals[:n1])):
            cur["store"] = stores[hsel[i]]
            if iofault is not None and i >= nextra:
                iofault["armed"] = True
            for hh, kk in pregets.get(i, ()):
                try:
                    stores[hh].get(kk)
                except SystemExit:
                    raise
                except BaseException:   # noqa - the key may not exist yet, or the injected error hit the load
                    pass
                stats["probe_get_between_sets"] += 1
            if i in reopen_before:
                st = kvs.KeyValueStorage(ROOT)
                sim_cache(st.cache, w)
                stores[hsel[i]] = st
                cur["store"] = st
                stats["probe_reopen_between_sets"] += 1
                if ch.draw(2, "get_after_reopen") and any(kk == k for kk, _ in hist[:i]):
                    # somebody reads the key from the fresh store while it is being set again: its load is in flight
                    def fresh_get(st=st, k=k):
                        try:
                            st.get(k)
                        except SystemExit:
                            raise
                        except BaseException:   # noqa
                            pass
                        stats["probe_get_racing_with_set_after_reopen"] += 1
                    w.spawn(f"reader{i}", fresh_get)
                w.yield_point("reopened")
            fs.mark("inv", i)
            try:
                do_set(cur["store"], k, v)
            except MemoryError:
                # a value larger than the cache limit may be refused (specified, see C16): then nothing was promised
                refused.add(i)
                stats["probe_oversize_refused"] += 1
                fs.mark("refused", i)
                continue
            except OSError as e:
                if iofault is None or not iofault["fired"] or "injected" not in str(e):
                    raise
                # the injected I/O error surfaced: the set did not complete, its key may be damaged from now on
                # (old value, new value or unreadable) until a later set of it completes; other keys stay protected
                stats["probe_set_failed_on_io_error"] += 1
                fs.mark("failed", i)
                continue
            fs.mark("ret", i)

    # optionally a concurrent reader of the same keys (a get whose load is in flight while the set arrives)
    reader_keys = [hist[ch.draw(len(hist), "rk")][0] for _ in range(ch.draw(4, "nreads"))] if ch.draw(3, "reader") == 0 else []

    def reader():
        for k in reader_keys:
            try:
                cur["store"].get(k)
            except SystemExit:
                raise
            except BaseException:   # noqa - a get racing with the first set of its key may legitimately find nothing
                pass
            stats["probe_concurrent_get"] += 1

    # optionally somebody else opens a store object on the same directory at an arbitrary moment (opening is not a
    # write: whatever a constructor does must leave sets in flight and completed values alone)
    if ch.draw(3, "opener") == 0:
        odelay = ch.draw(30, "opener.delay")

        def opener():
            for _ in range(odelay):
                w.yield_point("opener.wait")
            st = kvs.KeyValueStorage(ROOT)
            sim_cache(st.cache, w)
            stats["probe_store_opened_at_an_arbitrary_moment"] += 1
        w.spawn("opener", opener)
    a = w.spawn("writer", writer)
    if reader_keys:
        w.spawn("reader", reader)
    a2 = w.spawn("writer2", writer2) if hist2 else None
    reason = w.run()
    violations = []
    for wa in [a] + ([a2] if a2 is not None else []):
        if not wa.done:
            violations.append({"sig": "C17:set-hangs", "msg": f"{wa.name} blocked at {wa.desc} ({reason})"})
        elif wa.exc is not None:
            violations.append({"sig": f"C17:set-raises:{type(wa.exc).__name__}", "msg": f"{wa.name}: {str(wa.exc)[:200]}"})
    trace = list(fs.trace)
    w.shutdown()
    base = {"dirs": ["/", ROOT], "files": {}}
    images = 0
    seen_sigs = set()
    canon_vals = [canon(v) for v in vals]
    allkeys = {k for k, _ in hist}
    prefix_keys = sorted({"/".join(k.split("/")[:j]) for k in allkeys for j in range(1, k.count("/") + 1)} - allkeys)
    if any("/" in k for k, _ in hist):
        stats["probe_nested_key"] += 1
    if len({k for k, _ in hist}) < len(hist):
        stats["probe_overwrite"] += 1
    if any(lit.startswith("!") for _, lit in hist):
        stats["probe_big_value"] += 1
    for upto in range(len(trace) + 1):
        # which sets had returned / were in progress at this crash point
        # (several writers may overlap: per key the acceptable durable values are those of the returned sets that
        # no later-invoked returned set of the same key supersedes; a key with a set in progress is exempt)
        inv_at, ret_at, open_sets, failed_at = {}, {}, set(), {}
        for pos, op in enumerate(trace[:upto]):
            if op[0] == "mark":
                if op[1] == "inv":
                    inv_at[op[2]] = pos
                    open_sets.add(op[2])
                elif op[1] == "ret":
                    ret_at[op[2]] = pos
                    open_sets.discard(op[2])
                elif op[1] == "refused":
                    open_sets.discard(op[2])
                elif op[1] == "failed":
                    open_sets.discard(op[2])
                    failed_at[hist[op[2]][0]] = pos
        # a set that hit the injected I/O error may have damaged its key: promises made by sets of that key invoked
        # before the failure are void (also when such a set only returns afterwards); a later set restores them
        # (a set whose promise is void is still a set that happened: where it overlaps a set whose promise stands, its value
        # is as acceptable as the other's - the store may have applied the two in either order.  Judging the key by the standing
        # promise alone was a false alarm: writer A's set #2 in flight, writer B's set #3 fails, B's set #4 finds #2 in
        # flight, waits for it and returns - the file legitimately holds #2's value)
        void = {s for s in ret_at if inv_at[s] < failed_at.get(hist[s][0], -1)}
        inprog_keys = {hist[s][0] for s in open_sets}
        inprog = min(open_sets) if open_sets else None
        returned = {}
        for s in ret_at:
            key = hist[s][0]
            if not any(hist[s2][0] == key and inv_at[s2] > ret_at[s] for s2 in ret_at):
                returned.setdefault(key, []).append(s)
        for key in list(returned):
            standing = [s for s in returned[key] if s not in void]
            if not standing:
                del returned[key]           # nothing is promised for this key at this point
            else:
                returned[key] = [s for s in returned[key] if s in void] + standing      # the last one is a standing promise
        if inprog is not None:
            stats["probe_crash_inside_set"] += 1
        if upto > 0 and trace[upto - 1][0] in ("mark", "read", "exists", "getsize", "open"):
            # crash images only change after a mutating op; still check the first point after a mark 'ret'
            if not (trace[upto - 1][0] == "mark" and trace[upto - 1][1] == "ret"):
                continue
        for label, img in crash_images(base, trace, upto):
            images += 1
            if "data=all" not in label:
                stats["probe_unsynced_data_images"] += 1
            fs2 = SimFS.from_image(img)
            install_fs(fc, fs2)
            st2 = kvs.KeyValueStorage(ROOT)
            lazy_cache(st2.cache)
            for key, idxs in returned.items():
                if key in inprog_keys:
                    continue            # a key being written may read old, new or fail
                idx = idxs[-1]
                try:
                    got = st2.get(key)
                    ok = any(canon(got) == canon_vals[s] for s in idxs)
                    outcome = "wrong-value"
                except BaseException as e:   # noqa
                    ok = False
                    got = e
                    outcome = type(e).__name__
                if not ok:
                    other = inprog is not None
                    sig = f"C17:{'other-key' if other else 'durability'}:{outcome}"
                    if sig not in seen_sigs:
                        seen_sigs.add(sig)
                        fsize = len(img["files"].get(f"{ROOT}/{key}", b"")) if f"{ROOT}/{key}" in img["files"] else None
                        violations.append({"sig": sig, "msg": (
                            f"after crash at trace[{upto}] ({trace[upto - 1][:2] if upto else 'start'}) image {label}: key {key!r} "
                            f"(set #{idx} had returned{', set #%d of %r in progress' % (inprog, hist[inprog][0]) if other else ''}) "
                            f"reads {show(got) if not isinstance(got, BaseException) else repr(got)}; expected {show(vals[idx])}; file size on image: {fsize}")})
            # keys that were never set but lie on the path of a nested key ("other" for "other/k5"; a crash between
            # mkdir and open leaves exactly such a directory): no crash state may make the store fail for them
            for pk in prefix_keys:
                try:
                    st2.get(pk)
                    stats["probe_never_set_prefix_key_read_after_crash"] += 1
                except BaseException as e:   # noqa
                    sig = f"C17:never-set-prefix-key-fails:{type(e).__name__}"
                    if sig not in seen_sigs:
                        seen_sigs.add(sig)
                        violations.append({"sig": sig, "msg": f"after crash at trace[{upto}] image {label}: get({pk!r}) - a key that was never set, "
                                           f"on the path of a nested key - raises {e!r}"})
    shape = "|".join(f"{op[0]}" for op in trace if op[0] != "mark")
    keypat = ",".join(k for k, _ in hist)
    sample = {"history": [f"set({k!r}, {lit if len(lit) < 40 else lit[:37] + '...'})" for k, lit in hist],
              "trace": [str(op[:3])[:80] if op[0] != "write" else f"('write', {op[1]!r}, off={op[2]}, {len(op[3])} bytes)" for op in trace][:40],
              "crash_images_checked": images}
    nontriv = len(hist) >= 2 or any("/" in k for k, _ in hist)
    # names under the store root, other than the key's own file, that a set created / wrote / renamed / removed
    foreign = set()
    open_keys = {}
    for op in trace:
        if op[0] == "mark":
            if op[1] == "inv":
                open_keys[op[2]] = hist[op[2]][0]
            else:
                open_keys.pop(op[2], None)
        elif open_keys and op[0] in ("creat", "trunc", "write", "rename", "unlink"):
            for pth in (op[1:3] if op[0] == "rename" else op[1:2]):
                rel = pth[len(ROOT) + 1:]
                if rel not in open_keys.values():
                    foreign.add(rel)
    return {"violations": violations, "stats": dict(stats), "evaluations": images, "digest": None, "foreign": sorted(foreign),
            "nontrivial_keys": [f"{shape}#{keypat}"] if nontriv else [], "state_keys": [shape], "steps": w.steps,
            "sample": sample, "tail": [str(t)[:100] for t in trace[-40:]]}


# ----------------------------------------------------------------- real process kill
class _CountingFileIO(io.FileIO):
    def __init__(self, path, mode, ctl):
        super().__init__(path, mode)
        self._ctl = ctl

    def write(self, b):
        self._ctl.boundary("write")
        return super().write(b)

    def close(self):
        if not self.closed:
            self._ctl.boundary("close")
        return super().close()


class _Ctl:
    def __init__(self, kill_at):
        self.n = 0
        self.kill_at = kill_at
        self.ops = []

    def boundary(self, kind):
        if self.n == self.kill_at:
            os._exit(17)
        self.n += 1
        self.ops.append(kind)


class _RealOS:
    def __init__(self, ctl):
        self._ctl = ctl
        self.path = os.path

    def makedirs(self, path, exist_ok=False):
        if not os.path.isdir(path):
            self._ctl.boundary("makedirs")
        return os.makedirs(path, exist_ok=exist_ok)

    def fsync(self, fd):
        self._ctl.boundary("fsync")
        return os.fsync(fd)

    def getcwd(self):
        return os.getcwd()

    def replace(self, src, dst):
        self._ctl.boundary("rename")
        return os.replace(src, dst)

    rename = replace

    def remove(self, path):
        self._ctl.boundary("unlink")
        return os.remove(path)

    unlink = remove


def _real_open(ctl):
    def _open(path, mode="r", *a, **k):
        if mode == "wb":
            ctl.boundary("creat")
            return io.BufferedWriter(_CountingFileIO(path, "w", ctl))
        return open(path, mode, *a, **k)
    return _open


def _run_child(root, hist, vals, kill_at, progress_path):
    """Runs in a forked child: real FileCache (real lock, real thread pool) with a counting seam."""
    import time as _t
    fc, kvs = _fc, _kvs
    ctl = _Ctl(kill_at)
    fc.open = _real_open(ctl)
    fc.os = _RealOS(ctl)
    fc.time = _t
    kvs.os, kvs.open = os, open          # (a simulated disk of an earlier run in this worker must not linger here)
    store = kvs.KeyValueStorage(root)
    fd = os.open(progress_path, os.O_WRONLY | os.O_CREAT | os.O_APPEND)
    for i, ((k, lit), v) in enumerate(zip(hist, vals)):
        os.write(fd, b"I%d\n" % i)
        try:
            store.set(k, v)
        except MemoryError:
            os.write(fd, b"X%d\n" % i)
            continue
        os.write(fd, b"R%d\n" % i)
    os.write(fd, b"N%d\n" % ctl.n)
    os._exit(0)


def scenario_real(ch, cfg):
    import time as _t
    fc, kvs = _fc, _kvs
    hist = gen_history(ch)
    vals = _values(hist)
    canon_vals = [canon(v) for v in vals]
    violations = []
    images = 0
    seen = set()
    kill_at = 0
    total_ops = None
    stats = {}
    while True:
        tmp = tempfile.mkdtemp(prefix="klkill-", dir="/dev/shm" if os.path.isdir("/dev/shm") else None)
        try:
            root = os.path.join(tmp, "kv")
            os.mkdir(root)
            prog = os.path.join(tmp, "progress")
            pid = os.fork()
            if pid == 0:
                try:
                    _run_child(root, hist, vals, kill_at if total_ops is None or kill_at < total_ops else -1, prog)
                except BaseException:   # noqa
                    import traceback
                    with open(prog + ".err", "w") as ef:
                        ef.write(traceback.format_exc())
                finally:
                    os._exit(99)
            _, status = os.waitpid(pid, 0)
            code = os.waitstatus_to_exitcode(status)
            if code not in (0, 17):
                err = open(prog + ".err").read() if os.path.exists(prog + ".err") else ""
                raise HarnessError(f"realkill child exited with {code}: {err}")
            lines = open(prog).read().split() if os.path.exists(prog) else []
            returned = {}
            inprog = None
            for ln in lines:
                if ln[0] == "I":
                    inprog = int(ln[1:])
                elif ln[0] == "R":
                    returned[hist[int(ln[1:])][0]] = int(ln[1:])
                    inprog = None
                elif ln[0] == "X":
                    inprog = None
                elif ln[0] == "N":
                    total_ops = int(ln[1:])
            images += 1
            fc.open = open
            fc.os = os
            fc.time = _t
            kvs.os, kvs.open = os, open
            st2 = kvs.KeyValueStorage(root)
            try:
                for key, idx in returned.items():
                    if inprog is not None and hist[inprog][0] == key:
                        continue
                    try:
                        got = st2.get(key)
                        ok = canon(got) == canon_vals[idx]
                        outcome = "wrong-value"
                    except BaseException as e:   # noqa
                        ok = False
                        got = e
                        outcome = type(e).__name__
                    if not ok:
                        sig = f"C17:real:{'other-key' if inprog is not None else 'completed-set-lost'}:{outcome}"
                        if sig not in seen:
                            seen.add(sig)
                            violations.append({"sig": sig, "msg": f"process killed at operation boundary {kill_at}: key {key!r} (set #{idx} returned) reads "
                                               f"{show(got) if not isinstance(got, BaseException) else repr(got)}; expected {show(vals[idx])}"})
            finally:
                st2.cache.executor.shutdown(wait=True)
            if code == 0:
                break
            kill_at += 1
            if kill_at > 200:
                raise HarnessError("realkill: too many boundaries")
        finally:
            shutil.rmtree(tmp, ignore_errors=True)
    stats["crash_process_kills"] = images
    keypat = ",".join(k for k, _ in hist)
    sample = {"history": [f"set({k!r}, {lit[:40]})" for k, lit in hist], "kills": images, "mode": "real process killed at every op boundary"}
    return {"violations": violations, "stats": stats, "evaluations": images, "digest": None,
            "nontrivial_keys": [f"real#{keypat}#{images}"] if len(hist) >= 2 else [], "sample": sample, "tail": []}
