"""C07 - gradient / Jacobian computation is observationally pure.

Tick-fault harness: every use of a parameter inside the differentiated function goes through
an identity tick `t(v)` (a Python callable installed through the public API).  For each case
(gradient form x loss function x parameter kind) the fault-free run yields N ticks; then the
function is made to fail at its k-th tick for EVERY k in 1..N and every failure kind (raise a
KlongException, raise a RuntimeError, return a vector where a scalar is required), plus a
statically unknown name.  After every run - successful or failed - all globals are compared
bit-exactly (value, Python type, dtype, requires_grad) with the snapshot taken before it, the
same source text is evaluated again without fault and must give the reference result, and
f(point) must return what it returned before.
"""
import struct

from sim.canon import canon
from sim.world import HarnessError

PROPERTY = "C07"
LEVEL = "fault_enumeration"
RULE = ("each case = one gradient form (f:>literal, f:>variable, variable∇f, :symbol∇f, literal∇f, point∂g, variable∂g, "
        ".jacobian(g;p), loss:>[w b ...], [w b]∂g) x loss function x parameter kind (int / real scalar, float64 vector / matrix, "
        "integer vector) on the stated backend; per case the failing evaluation index k is enumerated over ALL ticks of the "
        "fault-free run x 3 failure kinds, plus an unknown-name variant; evaluations = faulted + fault-free runs judged; a case is "
        "non-trivial when it has >= 2 ticks; distinct = (form, loss, parameter kind, backend, N).  Then a history: the first "
        "result kept in a global, the parameter moved (literal or the documented descent step), the operator evaluated again "
        "fault-free and failing; 1 case in 3 evaluates the operator inside a function")
EXHAUSTIVE_NOTE = "the fault position k is enumerated exhaustively (1..N) for every failure kind within each generated case; cases are sampled"
ASSUMPTIONS = [
    "only state reachable through the public API (all global variables, results of re-evaluation) is compared",
    "the gradient value itself is not judged here (C06)",
    "torch configuration uses the cpu device",
]
REAL_STUB = {
    "real": ["klongpy.autograd (numeric_grad, numeric_jacobian, multi_grad_of_fn, multi_jacobian_of_fn)", "klongpy.dyads eval_dyad_grad/_jacobian/_autograd",
             "KlongInterpreter incl. parse cache and compiled-expression cache", "numpy backend; torch backend (cpu) in configuration 'torch'"],
    "stub": ["the differentiated function's failure: an identity tick callable that raises / returns a vector at its k-th invocation"],
}
EXPECTED_PROBES = ["probe_state_read_inside_the_error_handler", "probe_fault_in_first_probe", "probe_fault_in_later_probe", "probe_symbol_point_rebinding", "probe_multi_param", "probe_jacobian",
                   "probe_literal_point", "probe_nonscalar_fault", "probe_unknown_name", "probe_earlier_result_kept_in_a_variable",
                   "probe_parameter_after_a_descent_step", "probe_operator_inside_a_function", "probe_reassign_then_repeat",
                   "probe_plain_functions_before_and_after"]
WALL_CAP = {"quick": 400, "thorough": 3600}


def setup_worker():
    import klongpy  # noqa


def plan(tier):
    if tier == "quick":
        return [("numpy", {"backend": "numpy"}, 640, 8), ("torch", {"backend": "torch"}, 48, 3)]
    return [("numpy", {"backend": "numpy"}, 40000, 50), ("torch", {"backend": "torch"}, 4000, 20)]


class _Fault(Exception):
    pass


class _Interrupt(BaseException):
    """Stands for KeyboardInterrupt / SystemExit arriving while the differentiated function runs
    (not an Exception subclass: only 'finally' - not 'except Exception' - sees it)."""


POINTS = {
    "real": ["3.0", "0.5", "-2.25"],
    "int": ["3", "7"],
    "vec": ["[1.0 2.0 3.0]", "[0.5 -1.5]", "[2.0]"],
    "ivec": ["[1 2 3]", "[4 5]"],
    "mat": ["[[1.0 2.0] [3.0 4.0]]"],
}
SCALAR_LOSS = ["{t(x)^2}", "{t(x)*t(x)}", "{(t(x)*3)+c0}", "{t(x)^3}"]
VEC_LOSS = ["{+/t(x)^2}", "{+/t(x)*t(x)}", "{(+/t(x))*c0}", "{+/t(x)*c1}", "{keep::x;+/t(x)^2}"]
MAT_LOSS = ["{+/+/t(x)^2}", "{+/+/t(x)*t(x)}"]
VEC_FN = ["{t(x)*t(x)}", "{t(x)*c0}", "{t(x)^2}", "{t(x);c1}", "{:[(t(x)@0)>0;c1;other]}"]   # the last two RETURN a global array object itself


def _desc(v):
    """bit-exact descriptor of a global's value and kind."""
    import numpy as np
    try:
        import torch
        if isinstance(v, torch.Tensor):
            return ("tensor", bool(v.requires_grad), str(v.dtype), v.detach().cpu().numpy().tobytes().hex())
    except ImportError:
        pass
    if isinstance(v, np.ndarray):
        if v.dtype == object:
            return ("ndarray", "O", v.shape, repr(canon(v)))
        return ("ndarray", v.dtype.str, v.shape, v.tobytes().hex())
    if isinstance(v, np.generic):
        return ("npscalar", v.dtype.str, v.tobytes().hex())
    if isinstance(v, float):
        return ("float", struct.pack("!d", v).hex())
    if isinstance(v, (int, str, bool)) or v is None:
        return (type(v).__name__, repr(v))
    return (type(v).__name__, repr(canon(v)))


def _snapshot(klong, skip=("t", "keep")):
    snap = {}
    for sym, val in klong._context:
        name = str(sym)
        if name in skip or name.startswith("."):
            continue
        if name not in snap:
            snap[name] = _desc(val)
    # what a later evaluation sees besides the variables: an array product that overflows answers inf (process-wide numeric
    # modes are state too; judged through the evaluator, not by reading numpy's settings)
    try:
        import warnings
        with warnings.catch_warnings():
            warnings.simplefilter("ignore")
            snap["<the value of [1.0e200 2.0]*1.0e200>"] = _desc(klong("[1.0e200 2.0]*1.0e200"))
    except BaseException as e:   # noqa
        if isinstance(e, (SystemExit, KeyboardInterrupt)):
            raise
        snap["<the value of [1.0e200 2.0]*1.0e200>"] = ("raises", type(e).__name__)
    return snap


def scenario(ch, cfg):
    from klongpy import KlongInterpreter
    from klongpy.core import KlongException
    backend = cfg["backend"]
    klong = KlongInterpreter(backend=backend) if backend == "torch" else KlongInterpreter()
    stats = {}

    def bump(k, n=1):
        stats[k] = stats.get(k, 0) + n
    # ---- the case
    form = ch.pick(["autograd-literal", "autograd-variable", "nabla-variable", "nabla-symbol", "nabla-literal", "jacobian-literal",
                    "jacobian-variable", "sys-jacobian", "multi-grad", "multi-jacobian"], "form")
    kind = ch.pick(["real", "vec", "vec", "ivec", "mat", "int"], "kind")
    setup = ["c0::2.5", "c1::[1.0 2.0 3.0]", "other::[9.0 8.0 7.0]", 'note::"untouched"']
    point = ch.pick(POINTS[kind], "point")
    if kind == "mat" and form.startswith(("jacobian", "sys-jacobian", "multi")):
        kind, point = "vec", ch.pick(POINTS["vec"], "point2")
    if form in ("multi-grad", "multi-jacobian"):
        bump("probe_multi_param")
        np_ = 2 + ch.draw(2, "nparams")
        names = ["w", "b", "u"][:np_]
        pts = []
        for n in names:
            kd = ch.pick(["vec", "real", "ivec"], "pkind")
            p = ch.pick(POINTS[kd], "ppoint")
            pts.append(p)
            setup.append(f"{n}::{p}")
        # the parameter list itself may name a symbol twice (loss:>[w b w]): legal input, same purity obligation
        listed = list(names)
        if ch.draw(4, "dupsym") == 0:
            listed.append(names[ch.draw(len(names), "dupwhich")])
            bump("probe_duplicate_symbol_in_parameter_list")
        if form == "multi-grad":
            body = "+".join(f"(+/t({n})*{i + 2})" for i, n in enumerate(names))
            setup.append(f"loss::{{{body}}}")
            src = f"loss:>[{' '.join(listed)}]"
            fcall = "loss()"
        else:
            body = ",".join(f"(t({n})*{i + 2})" for i, n in enumerate(names))
            if ch.draw(4, "returns_param") == 0:
                body = f"t({names[0]})"        # the function's value IS the global parameter object (t is the identity)
                bump("probe_function_returns_global_object")
            setup.append(f"vg::{{{body}}}")
            src = f"[{' '.join(listed)}]∂vg"
            fcall = "vg()"
            bump("probe_jacobian")
        point_desc = dict(zip(names, pts))
    else:
        if form in ("jacobian-literal", "jacobian-variable", "sys-jacobian"):
            bump("probe_jacobian")
            if kind in ("real", "int"):
                kind, point = "vec", ch.pick(POINTS["vec"], "point3")
            fn = ch.pick(VEC_FN, "vfn")
            if "c0" not in fn and ch.draw(2, "addc"):
                fn = fn[:-1] + "+c1@0}"
            setup.append(f"g::{fn}")
            setup.append(f"a::{point}")
            src = {"jacobian-literal": f"{point}∂g", "jacobian-variable": "a∂g", "sys-jacobian": ".jacobian(g;a)"}[form]
            fcall = "g(a)"
        else:
            loss = ch.pick({"real": SCALAR_LOSS, "int": SCALAR_LOSS, "vec": VEC_LOSS, "ivec": VEC_LOSS, "mat": MAT_LOSS}[kind], "loss")
            if "c1" in loss and point != "[1.0 2.0 3.0]" and kind in ("vec", "ivec"):
                loss = VEC_LOSS[0]
            setup.append(f"f::{loss}")
            setup.append(f"a::{point}")
            src = {"autograd-literal": f"f:>{point}", "autograd-variable": "f:>a", "nabla-variable": "a∇f", "nabla-symbol": ":a∇f",
                   "nabla-literal": f"{point}∇f"}[form]
            fcall = "f(a)"
        point_desc = {"a": point}
    if ch.draw(3, "inside_function") == 0:
        # the operator evaluated inside a function call (the documented step::{grad::loss:>theta;...} pattern): the
        # innermost scope is then the function's frame, the parameters are globals all the same
        setup.append("step::{[g];g::" + src + ";g}")
        src = "step()"
        bump("probe_operator_inside_a_function")
    if form in ("nabla-symbol",):
        bump("probe_symbol_point_rebinding")
    if "literal" in form:
        bump("probe_literal_point")
    # ---- the tick
    ctl = {"n": 0, "fail_at": None, "mode": None}

    def t(x):
        ctl["n"] += 1
        ctl["last"] = _desc(x)          # what the function was given in this evaluation (copied now)
        if ctl["fail_at"] is not None and ctl["n"] == ctl["fail_at"]:
            if ctl["mode"] == "klong":
                raise KlongException("scripted failure of the differentiated function")
            if ctl["mode"] == "runtime":
                raise RuntimeError("scripted failure of the differentiated function")
            if ctl["mode"] == "interrupt":
                raise _Interrupt("scripted interrupt while the differentiated function runs")
            # non-scalar: the function's value becomes a vector
            import numpy as np
            try:
                import torch
                if isinstance(x, torch.Tensor):
                    return torch.stack([x.flatten()[0], x.flatten()[0]]) if x.ndim else torch.stack([x, x])
            except ImportError:
                pass
            arr = np.asarray(x, dtype=float).flatten()
            return np.array([arr[0], arr[0] + 1.0, arr[0] + 2.0])
        return x

    klong["t"] = t
    for line in setup:
        klong(line)
    violations = []
    evaluations = 0

    def viol(sig, msg):
        if len(violations) < 8 and not any(v["sig"] == sig for v in violations):
            violations.append({"sig": sig, "msg": msg})

    def run(src_, fail_at=None, mode=None, in_handler=None):
        ctl["n"] = 0
        ctl["fail_at"] = fail_at
        ctl["mode"] = mode
        try:
            return ("ok", _desc(klong(src_)) if True else None)
        except BaseException as e:   # noqa
            if isinstance(e, (SystemExit, KeyboardInterrupt)):
                raise
            if in_handler is not None:
                # what the program's error handler sees: the exception (and its traceback) is still alive here
                ctl["fail_at"] = None
                in_handler()
            return ("exc", type(e).__name__)
        finally:
            ctl["fail_at"] = None

    def compare(before, after, what):
        for name in sorted(set(before) | set(after)):
            if before.get(name) != after.get(name):
                b, a = before.get(name), after.get(name)
                role = "param" if name in point_desc else "other-variable"
                if a is None or b is None:
                    cls = "variable-appeared-or-vanished"
                elif b[0] != a[0] or (len(b) > 1 and b[1] != a[1] and b[0] in ("ndarray", "npscalar", "tensor")):
                    cls = "kind-changed"
                else:
                    cls = "value-perturbed"
                viol(f"C07:{role}-{cls}:{form}", f"{what}: global {name} was {str(b)[:90]} and is now {str(a)[:90]} (case {src}, setup {setup[-2:]})")

    # ---- reference (fault-free) run, itself judged for purity
    snap0 = _snapshot(klong)
    f_before = run(fcall)
    snap0b = _snapshot(klong)
    compare(snap0, snap0b, f"plain call {fcall}")
    ref = run(src)
    n_ticks = ctl["n"]
    evaluations += 1
    snap1 = _snapshot(klong)
    compare(snap0, snap1, f"fault-free {src}")

    def check_keep(what):
        # a function that deliberately stores its argument must end up holding the point of its LAST
        # evaluation - not an alias of the differentiator's scratch array that is rewritten afterwards
        if "keep::" in "".join(setup) and ctl.get("last") is not None and backend == "numpy":
            try:
                kd = _desc(klong("keep"))
            except Exception:
                return
            if kd[0] == "ndarray" and ctl["last"][0] == "ndarray" and kd[-1] != ctl["last"][-1]:
                viol(f"C07:stored-argument-aliases-scratch-array:{form}",
                     f"{what}: the function stored its argument in global keep; it was called last with {ctl['last'][-1][:48]}.. but keep now holds {kd[-1][:48]}..")
    check_keep(f"fault-free {src}")
    if ref[0] != "ok":
        # the form does not apply to this parameter kind on this backend (e.g. integer point): still must be pure
        bump("probe_reference_raised")
    # ---- enumerate the failing tick
    modes = ["klong", "runtime", "nonscalar", "interrupt"]
    for k in range(1, n_ticks + 1):
        for mode in modes:
            before = _snapshot(klong)
            held = {}
            r = run(src, fail_at=k, mode=mode, in_handler=lambda: held.update(snap=_snapshot(klong)))
            evaluations += 1
            if "snap" in held:
                bump("probe_state_read_inside_the_error_handler")
                compare(before, held["snap"], f"{src} failing ({mode}) at evaluation tick {k}/{n_ticks}, state as the error handler sees it (exception still alive)")
            after = _snapshot(klong)
            bump("probe_fault_in_first_probe" if k <= 2 else "probe_fault_in_later_probe")
            if mode == "nonscalar":
                bump("probe_nonscalar_fault")
            compare(before, after, f"{src} failing ({mode}) at evaluation tick {k}/{n_ticks} -> {r}")
            # the same source text, evaluated again without fault, must give the reference result
            check_keep(f"{src} failing ({mode}) at tick {k}")
            again = run(src)
            evaluations += 1
            if again != ref:
                viol(f"C07:same-expression-differs-after-failure:{form}",
                     f"{src} gave {str(ref)[:100]} before; after a run failing ({mode}) at tick {k}/{n_ticks} the same text gives {str(again)[:100]}")
            fa = run(fcall)
            if fa != f_before:
                viol(f"C07:function-value-differs-after-failure:{form}", f"{fcall} was {str(f_before)[:80]}, after failure at tick {k}: {str(fa)[:80]}")
            compare(before, _snapshot(klong), f"re-evaluation after {src} failed at tick {k}")
            if violations:
                break
        if violations:
            break
    # ---- multi-step history: the user moves the parameter (a gradient step) and differentiates again
    if not violations:
        bump("probe_reassign_then_repeat")
        if ref[0] == "ok":
            # the application keeps the result of the first computation (grads::...): a later computation must not
            # change what it kept
            run(f"prevg::{src}")
            bump("probe_earlier_result_kept_in_a_variable")
        descent = ref[0] == "ok" and form in ("nabla-variable", "nabla-symbol") and kind in ("vec", "real") and ch.draw(4, "descent") != 0
        for name, pt in point_desc.items():
            others = [p for p in POINTS.get({"[": "vec"}.get(pt[0], "real"), []) if p != pt]
            newpt = (others[0] if others else pt)
            if pt.startswith("[[") or ("." not in pt):
                newpt = pt          # keep matrices / integer points as they are (kind must stay the same)
            if descent:
                # the documented descent step: the parameter becomes what the arithmetic makes of it (on the torch
                # backend a float64 tensor, where literals are float32)
                bump("probe_parameter_after_a_descent_step")
                run(f"{name}::{name}-(0.1*{name}∇f)")
            else:
                klong(f"{name}::{newpt}")
        for rep in range(2):
            before = _snapshot(klong)
            r = run(src)
            evaluations += 1
            compare(before, _snapshot(klong), f"{src} evaluated again after the parameter(s) were reassigned (repeat {rep + 1}) -> {str(r)[:60]}")
        for k in range(1, min(n_ticks, 6) + 1):
            before = _snapshot(klong)
            r = run(src, fail_at=k, mode="klong")
            evaluations += 1
            compare(before, _snapshot(klong), f"{src} after the parameter(s) were reassigned, failing at evaluation tick {k} -> {r}")
            if violations:
                break
    # ---- statically unknown name
    if not violations:
        bump("probe_unknown_name")
        bad_setup = {"multi-grad": "loss::{(+/t(w))+nosuch}", "multi-jacobian": "vg::{t(w),nosuch}"}.get(form)
        if bad_setup is None:
            bad_setup = ("g::{t(x)*nosuch}" if "jacobian" in form else "f::{(+/t(x))+nosuch}")
        before = _snapshot(klong)
        name = bad_setup.split("::")[0]
        saved = before.get(name)
        klong(bad_setup)
        mid = _snapshot(klong)
        r = run(src)
        evaluations += 1
        after = _snapshot(klong)
        compare(mid, after, f"{src} with a function referring to the unknown name 'nosuch' -> {r}")
    # ---- functions that use their parameters directly (no tick in between), with computed parameters and matrix shapes:
    #      whatever the operator does to evaluate them - rebinding, probing with other kinds of values, failing on a shape it
    #      cannot handle - each of them returns afterwards exactly what it returned before, value and kind
    if not violations:
        bump("probe_plain_functions_before_and_after")
        k2 = KlongInterpreter(backend=backend) if backend == "torch" else KlongInterpreter()
        pw = ch.pick(["+/[1.0 1.0]", "2.0", "1.0+1", "3"], "pw")          # a computed scalar is a numpy scalar, a literal is not
        lines = [f"pw::{pw}", "pb::[1.0 2.0 3.0]", "pf::{(pw^2)*#pb}", "pf2::{(pw*pw)+#pb}", "PW::[[1.0 2.0] [3.0 4.0]]", "PM::[[1 2] [3 4]]",
                 "pg::{(PW*PM)^2}", "pgs::{+/+/(PW*PM)^2}", "pv::[1.0 2.0]", "ph::{(pv^2),#pv}", "phs::{+/(pv*pv)*#pv}",
                 # a compilable operand (arithmetic of two globals) below an operator the compiler does not take (ravel, count)
                 "pg2::{,/(PW*PM)^2}", "pgs2::{+/,/(PW*PM)^2}", "pgx::{,/(x*PM)^2}", "PX::[3.0 4.0]", "phu::{(+/(pv*PX)^2)*#PX}"]
        for line in lines:
            k2(line)

        def run2(src_):
            try:
                return ("ok", _desc(k2(src_)))
            except BaseException as e:   # noqa
                if isinstance(e, (SystemExit, KeyboardInterrupt)):
                    raise
                return ("exc", type(e).__name__)
        calls = ["pf()", "pf2()", "pg()", "pgs()", "ph()", "phs()", "pg2()", "pgs2()", "pgx(PW)", "phu()"]
        base = {c: run2(c) for c in calls}
        ops = ["pw∇pf", "pf:>[pw]", "[pw]∂pf", "pw∇pf2", "pf2:>[pw]", "PW∂pg", "[PW]∂pg", ".jacobian(pg;PW)", "PW∇pgs", "pgs:>[PW]", "[PW]∂pgs",
               "pv∂ph", "[pv]∂ph", "pv∇phs", "phs:>[pv]", ".jacobian(ph;pv)", "[PW]∂pg2", "PW∂pgx", ".jacobian(pgx;PW)", "[PW]∂pgs2", "pgs2:>[PW]",
               "PW∇pgs2", "pv∇phu", "phu:>[pv]", "[pv]∂phu"]
        nops = 3 + ch.draw(4, "plain.nops")
        for _ in range(nops):
            op = ch.pick(ops, "plain.op")
            before = {name: d for name, d in _snapshot(k2, skip=()).items()}
            r = run2(op)
            evaluations += 1
            after = _snapshot(k2, skip=())
            for name in sorted(set(before) | set(after)):
                if before.get(name) != after.get(name):
                    viol(f"C07:plain:variable-changed:{op.split('(')[0] if op.startswith('.') else ''.join(c for c in op if not c.isalnum())}",
                         f"{op} -> {str(r)[:60]}: global {name} was {str(before.get(name))[:80]} and is now {str(after.get(name))[:80]} (pw::{pw})")
            for c in calls:
                now = run2(c)
                if now != base[c]:
                    fn_src = [line for line in lines if line.startswith(c.split("(")[0] + "::")][0]
                    viol("C07:plain:function-value-or-kind-differs-afterwards",
                         f"{fn_src} with pw::{pw}: {c} returned {str(base[c])[:90]} before and {str(now)[:90]} after {op} (-> {str(r)[:50]})")
            if violations:
                break
    sample = {"backend": backend, "form": form, "source": src, "setup": setup[4:], "ticks": n_ticks, "reference": str(ref)[:80]}
    key = f"{backend}|{form}|{kind}|{n_ticks}|{setup[-2][:30]}"
    return {"violations": violations, "stats": stats, "evaluations": evaluations, "digest": None,
            "nontrivial_keys": [key] if n_ticks >= 2 else [], "state_keys": [f"{form}|{kind}"], "sample": sample, "tail": []}
