"""C13 - remote evaluation over IPC equals evaluation on the server.

(b) World-level: real `.srv` / `.cli` / `.clid` between two simulated nodes; a drawn sequence
of remote operations is executed as Klong source on the client and, operation by operation,
the local equivalent on a network-less twin interpreter; results compared in canonical form.
Every byte stream is fragmented/merged/delayed by SimNet and all loops and callers are
interleaved by the World; no fault is injected (faults are C14's subject).
(a) Component-level, exhaustive: 1-3 real frames fed to a real asyncio.StreamReader read by
the real stream_recv_msg, cut into up to three reads at every pair of positions.
"""
import asyncio
import itertools
import uuid as _uuid

from sim.canon import canon, show
from sim.ipcenv import IpcEnv, PORT
from sim.values import gen_literal
from sim.world import HarnessError, install_patches

PROPERTY = "C13"
LEVEL = "exploration"
RULE = ("(sequences) each run = 3-12 remote operations drawn from f(\"expr\"), f(:name,args), proxy q(args) of arity 1-3, remote "
        "dictionary set/get, f(:var), remote function definition and a burst of up to three concurrent Python-level calls, over "
        "values of the transportable universe, executed against a live real server under a seeded schedule with seeded stream "
        "fragmentation; the oracle is the same operation on a twin interpreter; non-trivial = at least one frame was delivered in "
        "more than one fragment or two frames were merged into one read; distinct = digest of the event log.  Also drawn: "
        "a backend behind the server (chain), zero-argument calls, redefinition with another arity, the same expression text "
        "around remote sets that change the kind of its variables, equal text of different kinds, functions used locally before "
        "being installed remotely, a second client connection reading during a call, responses of 70 kB and 17.6 MB, an "
        "unencodable request inside a burst.  (cuts) each case = "
        "1-3 consecutive frames; ALL ways of cutting the stream into <= 3 reads are enumerated; evaluations = cut patterns")
ASSUMPTIONS = [
    "fault-free network (in-order lossless pipes): only fragmentation, coalescing, delay and interleaving vary",
    "functions compare by arity / proxy kind; a server-side evaluation error is only placed as the last operation because the shipped server drops the connection after it",
    "top-level character values are wrapped in a list (k,,0cx is string concatenation in Klong, not argument passing)",
]
REAL_STUB = {
    "real": ["klongpy.sys_fn_ipc (.srv .cli .clid, NetworkClient, proxies, dict handle, framing)", "KlongInterpreter x3 (client, server, twin)",
             "asyncio streams (StreamReader.readexactly) and tasks"],
    "stub": ["event loops -> SimLoop", "TCP -> SimNet (drawn fragment sizes biased to field boundaries)", "threading.Event -> SimEvent", "uuid4 -> counter"],
}
EXPECTED_PROBES = ["probe_frame_fragmented", "probe_frames_coalesced", "probe_undefined_transported", "probe_proxy_call", "probe_dict_set_get",
                   "probe_remote_fn_definition", "probe_burst", "probe_big_response", "probe_nested_list", "probe_dictionary_value", "probe_server_error_last",
                   "probe_same_text_after_remote_set", "probe_unencodable_request_in_burst", "probe_equal_text_of_different_kinds",
                   "probe_second_connection_reads_during_a_call", "probe_answer_is_a_snapshot_while_another_connection_amends_the_value", "probe_set_returned_then_read_through_another_connection", "probe_multi_line_programs_from_two_connections", "probe_response_above_16MiB",
                   "probe_remote_definition_of_a_function_used_locally_first", "probe_chain_backend", "probe_unbound_symbol", "net_stall",
                   "probe_client_connects_during_a_call", "probe_server_calls_client", "probe_second_handle_by_address_closed",
                   "probe_handle_form_1", "probe_handle_form_2", "probe_handle_form_3", "probe_handle_form_4", "probe_handle_form_5"]
WALL_CAP = {"quick": 400, "thorough": 3600}
EXHAUSTIVE_NOTE = "configuration 'cuts' enumerates every (a<=b) split of the concatenated frames into three reads exhaustively for each generated case"


def setup_worker():
    install_patches()
    import klongpy.sys_fn_ipc  # noqa


def plan(tier):
    if tier == "quick":
        return [("sequences", {"mode": "seq"}, 2200, 50), ("cuts", {"mode": "cuts"}, 64, 4), ("cuts-large", {"mode": "cuts", "large": 1}, 16, 1)]
    return [("sequences", {"mode": "seq"}, 90000, 100), ("cuts", {"mode": "cuts"}, 2400, 10), ("cuts-large", {"mode": "cuts", "large": 1}, 400, 4)]


def _q(s):
    return s.replace('"', '""')


def _arg_lit(ch, tag):
    lit = gen_literal(ch, allow_undef=False, tag=tag)
    if lit.startswith("0c"):
        lit = "[" + lit + "]"
    return lit


# Only functions whose arity KlongPy infers as written: on the pinned tree {,x} {-x} {#x} have inferred
# arity 0 and {x,,y} arity 1 (operands of monadic operators are not counted) - a defect of arity
# inference (C03/C09 territory), kept out of this transport oracle and recorded in DESIGN.md.
FN_DEFS = [("inc", "{x+1}", 1), ("dbl", "{x,x}", 1), ("add", "{x+y}", 2), ("pair", "{[a b];a::x;b::y;a,,b}", 2), ("tri", "{(x+y)*z}", 3),
           ("idn", "{x}", 1), ("wrap", "{[a];a::x;,a}", 1), ("und", "{x;1%0}", 1), ("sel", "{:[x;y;z]}", 3)]


def _call_src(name, args):
    """f(:name,(,a1),(,a2)...): every argument enlisted on its own so that list arguments stay one argument."""
    return f"f(:{name}" + "".join(f",(,{a})" for a in args) + ")"


def scenario(ch, cfg):
    if cfg["mode"] == "cuts":
        return scenario_cuts(ch, cfg)
    from klongpy import KlongInterpreter
    from klongpy.core import KGSym
    import klongpy.sys_fn_ipc as ipc
    env = IpcEnv(ch, max_steps=60000, peer="real")
    w, net = env.w, env.net
    stats = w.stats
    if ch.draw(4, "stall") == 0:
        # the byte stream pauses somewhere inside a frame for a while and then goes on ("however the byte stream is split
        # into or merged across network reads" has no clock in it: a slow path delivers the same messages)
        from sim.ipcenv import CUT_CLASSES
        env.cut_plan = {"direction": ch.draw(2, "stall.dir"), "frame": 1 + ch.draw(6, "stall.frame"), "cls": ch.pick(CUT_CLASSES[1:7], "stall.cls"),
                        "kind": "stall", "cid": 0, "stall_for": ch.pick([0.4, 1.5, 2.5, 8.0, 40.0], "stall.for")}
    twin = KlongInterpreter()
    nops = 3 + ch.draw(10, "nops")
    # function definitions available on the server (and the twin) from the start
    ndefs = 2 + ch.draw(4, "ndefs")
    pool = list(FN_DEFS)
    defs = [pool.pop(ch.draw(len(pool), "def")) for _ in range(ndefs)]
    boot = [f"{n}::{body}" for n, body, _ in defs] + ["gv::[1 2 3]", 'gs::"text"', "g0::100", "useg::{x+g0}", "nctr::0", "nil::{nctr::nctr+1;nctr*7}",
                                                       "slow::{[gv];gv::x+1;yieldfn(0);gv}",
                                                       # a connection callback (it runs whenever a client connects) and a function that
                                                       # reads its parameter after it has taken a while
                                                       "ocnt::0", "cl::0", ".srv.o::{[oh];oh::x;:[ocnt=0;cl::x;0];ocnt::ocnt+1;yieldfn(0);oh}", "slowx::{[gv];gv::x+1;yieldfn(0);gv+x}",
                                                       # a dictionary the server keeps (amended in place by requests) and a function that answers it
                                                       "gdict:::{[1 10] [2 20]}", "snapd::{markfn(x);yieldfn(0);gdict}"]
    marks = {"n": 0}

    def markfn(x):
        marks["n"] += 1
        return 0
    env.server.klong["markfn"] = markfn
    twin["markfn"] = lambda x: 0

    def yieldfn(x):
        # a server-side function that takes a while (the other loops and threads run meanwhile)
        for _ in range(6):
            w.yield_point("srv.slow")
        return 0
    env.server.klong["yieldfn"] = yieldfn
    twin["yieldfn"] = lambda x: 0
    for line in boot:
        twin(line)
    for n, _, ar in defs:
        if twin[n].fn.arity != ar:
            raise HarnessError(f"arity of {n} inferred as {twin[n].fn.arity}, workload assumes {ar}")
    # optional chain client -> server -> backend: the server holds h::.cli(backend); a handle object is then a remote value
    chain = ch.draw(5, "chain") == 0
    if chain:
        from sim.klnode import Node
        stats["probe_chain_backend"] += 1
        backend = Node(w, net, "B")
        ipc._ipc_tcp_server = ipc.TcpServerHandler()      # one listener object per simulated process
        bb = backend.on_klongloop(lambda: backend.klong(".srv(8889)"))
        w.run(until=lambda: 8889 in net.listeners, max_steps=3000)
        if 8889 not in net.listeners:
            raise HarnessError(f"backend did not start: {bb}")
        ipc._ipc_tcp_server = ipc.TcpServerHandler()
        boot = boot + ["h::.cli(8889)"]
    env.start_server(src=boot)
    w.run(until=lambda: env.listener_up() and env.booted(), max_steps=6000)
    violations = []
    log = []
    state = {"vars": ["gv", "gs"], "fns": dict({n: a for n, _, a in defs}, useg=1), "proxies": {}, "dict": False, "remote_defs": 0}
    cl = env.client.klong

    def viol(sig, msg):
        violations.append({"sig": sig, "msg": msg})

    def both(kind, client_src, twin_fn, state_changing=False):
        """run client_src on the client and twin_fn() on the twin; compare canonically."""
        try:
            want = ("ok", canon(twin_fn()))
        except BaseException as e:   # noqa
            if isinstance(e, SystemExit):
                raise
            want = ("exc", type(e).__name__)
        try:
            got = ("ok", canon(cl(client_src)))
        except BaseException as e:   # noqa
            if isinstance(e, SystemExit):
                raise
            got = ("exc", type(e).__name__)
        log.append(f"{client_src[:70]} -> {str(got)[:60]}")
        w.note(log[-1])
        if got[0] == "exc":
            state["client_exc"] = True
        if want[0] == "exc" and got[0] == "exc":
            return got
        if got != want:
            cls = "undef-copy" if "undef-copy" in repr(got) else ("raised-" + got[1] if got[0] == "exc" else
                                                                ("should-have-raised" if want[0] == "exc" else kind))
            viol(f"C13:value-mismatch:{cls}", f"{client_src[:120]} gave {str(got)[:160]}; the same operation on the server interpreter gives {str(want)[:160]}")
        if "undef" in repr(want):
            stats["probe_undefined_transported"] += 1
        if "'L', (('L'" in repr(want) or "('L', (('i'" in repr(want) and "('L'" in repr(want)[10:]:
            stats["probe_nested_list"] += 1
        if "('D'" in repr(want):
            stats["probe_dictionary_value"] += 1
        return got

    # the other direction of the same connection: the server calls the client through the handle .srv.o received (the
    # documented server push).  "Evaluating through a remote handle is equivalent to evaluating on the [serving] interpreter"
    # - here the serving interpreter is the client's; ctwin mirrors what is defined there
    ctwin = KlongInterpreter()
    for line in ("csq::{x*x}", "cpair::{x,y}", "cv::[1 2 3]"):
        cl(line)
        ctwin(line)

    def reverse(kind, what, call_fn, twin_fn):
        try:
            want = ("ok", canon(twin_fn()))
        except BaseException as e:   # noqa
            if isinstance(e, SystemExit):
                raise
            want = ("exc", type(e).__name__)
        try:
            got = ("ok", canon(call_fn()))
        except BaseException as e:   # noqa
            if isinstance(e, SystemExit):
                raise
            got = ("exc", type(e).__name__)
        log.append(f"server->client {what[:60]} -> {str(got)[:60]}")
        w.note(log[-1])
        if got[0] == "exc":
            state["client_exc"] = True
        if got != want and not (got[0] == "exc" and want[0] == "exc"):
            viol(f"C13:reverse:value-mismatch:{kind}", f"server calling the client: {what[:120]} gave {str(got)[:160]}; the same operation on the client interpreter gives {str(want)[:160]}")

    def run_ops():
        # every documented way of getting the function handle f (and the dictionary handle d): by port, by "host:port",
        # from the other kind of handle of the same connection, from a handle of the same kind (identity)
        hf = ch.draw(6, "handle-form")
        stats[f"probe_handle_form_{hf}"] += 1
        if hf == 0:
            cl(f"f::.cli({PORT})")
        elif hf == 1:
            cl(f'f::.cli("localhost:{PORT}")')
        elif hf == 2:
            cl(f"d::.clid({PORT})")
            cl("f::.cli(d)")
            state["dict"] = True
        elif hf == 3:
            cl(f'd::.clid("localhost:{PORT}")')
            cl("f::.cli(d)")
            state["dict"] = True
        elif hf == 4:
            cl(f"f0::.cli({PORT})")
            cl("f::.cli(f0)")
        else:
            cl(f"f::.cli({PORT})")
            cl("d0::.clid(f)")
            cl("d::.clid(d0)")
            state["dict"] = True
        for i in range(nops):
            last = i == nops - 1
            k = ch.weighted([6, 4, 4, 4, 2, 2, 2, 2, 2, 1 if last else 0, 2, 1, 1, 1, 2, 1, 1, 1, 1], "op")
            if k == 0:      # f("expr")
                m = ch.weighted([5, 2, 2, 1, 1, 1], "expr")
                if m == 0:
                    expr = gen_literal(ch, allow_undef=True, tag="e")
                elif m == 1:
                    expr = f"{ch.draw(50, 'a')}+{ch.draw(50, 'b')}*{1 + ch.draw(5, 'c')}"
                elif m == 2:
                    name = f"a{ch.draw(3, 'avar')}"
                    expr = f"{name}::{gen_literal(ch, allow_undef=False, tag='av')}"
                    if name not in state["vars"]:
                        state["vars"].append(name)
                elif m == 3:
                    expr = ch.pick(state["vars"], "ref")
                elif m == 4:
                    expr = ":_1%0"
                else:
                    # a response larger than 64 KiB: length field width, many fragments
                    expr = f"!{8300 + ch.draw(300, 'bigresp')}"
                    stats["probe_big_response"] += 1
                    if ch.draw(12, "hugeresp") == 0:
                        # a response of 17.6 MB (more than 16 MiB): only its length is compared on the client
                        stats["probe_response_above_16MiB"] += 1
                        both("eval-string", '#f("!2200000")', lambda: twin("#!2200000"))
                        if violations or state.get("client_exc"):
                            return
                        continue
                both("eval-string", f'f("{_q(expr)}")', lambda expr=expr: twin(expr))
            elif k == 1:    # f(:name,args)
                name = ch.pick(sorted(state["fns"]), "fname")
                ar = state["fns"][name]
                args = [_arg_lit(ch, "arg") if not (name in ("inc", "add", "tri", "useg") or name.startswith("rf")) else str(ch.draw(100, "n")) for _ in range(ar)]
                if name == "sel":
                    args[0] = ch.pick(["0", "1", "[]", '""', '"a"'], "cond")
                src = _call_src(name, args)
                try:
                    # the request list itself must be buildable locally and must keep the arguments as written
                    # (Klong list building turns [0 1.0e10 -7] into reals: client-side semantics, not transport)
                    req = twin(src[2:-1])
                    if [canon(v) for v in req[1:]] != [canon(twin(a)) for a in args]:
                        raise ValueError("arguments coerced by list building")
                except Exception:
                    stats["probe_skipped_unbuildable_request"] += 1
                    continue
                both("fn-call", src, lambda name=name, args=args: twin(f"{name}({';'.join(args)})"))
            elif k == 2:    # proxy: q::f(:name) ; q(args)
                name = ch.pick(sorted(state["fns"]), "pname")
                ar = state["fns"][name]
                q = f"q{name}"
                if name not in state["proxies"]:
                    both("proxy-create", f"{q}::f(:{name})", lambda name=name: twin(name))
                    state["proxies"][name] = q
                args = [_arg_lit(ch, "parg") if not (name in ("inc", "add", "tri", "useg") or name.startswith("rf")) else str(ch.draw(100, "pn")) for _ in range(ar)]
                if name == "sel":
                    args[0] = ch.pick(["0", "1", "[]", '""', '"a"'], "pcond")
                stats["probe_proxy_call"] += 1
                both("proxy-call", f"{q}({';'.join(args)})", lambda name=name, args=args: twin(f"{name}({';'.join(args)})"))
            elif k == 3:    # dictionary set then get
                if not state["dict"]:
                    cl("d::.clid(f)")
                    state["dict"] = True
                name = f"dv{ch.draw(3, 'dvar')}"
                lit = _arg_lit(ch, "dval")
                stats["probe_dict_set_get"] += 1
                val = twin(lit)

                def tset(name=name, val=val):
                    twin[name] = val
                    return 0
                try:
                    cl(f"d,:{name},,{lit}")
                    tset()
                    log.append(f"d,:{name},,{lit[:40]}")
                except BaseException as e:   # noqa
                    if isinstance(e, SystemExit):
                        raise
                    viol(f"C13:dict-set-raised:{type(e).__name__}", f"d,:{name},,{lit[:60]}: {str(e)[:80]}")
                if name not in state["vars"]:
                    state["vars"].append(name)
                both("dict-get", f"d?:{name}", lambda name=name: twin[KGSym(name)])
                both("eval-after-dict-set", f'f("{name}")', lambda name=name: twin(name))
            elif k == 4:    # f(:var)
                # a name bound on the server, or (1 in 4) one that is bound nowhere: evaluating it locally
                # yields the symbol itself, and so must f(:name)
                name = ch.pick(state["vars"], "var") if ch.draw(4, "unbound") else f"nosuch{ch.draw(3, 'nsx')}"
                if name.startswith("nosuch"):
                    stats["probe_unbound_symbol"] += 1
                both("sym-value", f"f(:{name})", lambda name=name: twin(name))
            elif k == 5:    # remote function definition through the dictionary, then call through a proxy
                if not state["dict"]:
                    cl("d::.clid(f)")
                    state["dict"] = True
                state["remote_defs"] += 1
                name = f"rf{state['remote_defs']}"
                body, ar = ch.pick([("{x+1}", 1), ("{x,x}", 1), ("{x*y}", 2), ("{(+/x)%#x}", 1), ("{|/x,0}", 1)], "rbody")
                stats["probe_remote_fn_definition"] += 1
                setsrc = f"d,:{name},{body}"
                if ch.draw(2, "used_locally_first"):
                    # the function is defined and used on the client first, then sent under its name (the usual order
                    # of events: try it locally, then install it on the server)
                    stats["probe_remote_definition_of_a_function_used_locally_first"] += 1
                    cl(f"l{name}::{body}")
                    cl(f"l{name}({';'.join(['[1 2 3]' if '/' in body else '2'] * ar)})")
                    setsrc = f"d,:{name},l{name}"
                try:
                    cl(setsrc)
                    twin(f"{name}::{body}")
                except BaseException as e:   # noqa
                    if isinstance(e, SystemExit):
                        raise
                    import re as _re
                    viol(f"C13:remote-def-raised:{type(e).__name__}", f"{setsrc} (function body {body}): {_re.sub('0x[0-9a-f]+', '0x..', str(e))[:80]}")
                    continue
                state["fns"][name] = ar
                both("dict-get-fn", f"p{name}::d?:{name}", lambda name=name: twin(name))
                args = [str(3 + ch.draw(9, "rn")) for _ in range(ar)]
                both("proxy-call", f"p{name}({';'.join(args)})", lambda name=name, args=args: twin(f"{name}({';'.join(args)})"))
            elif k == 6:    # burst of concurrent Python-level calls on the same connection
                nc = env.client.klong._context[KGSym("f")]
                lits = [_arg_lit(ch, "burst") for _ in range(2 + ch.draw(2, "nburst"))]
                if ch.draw(3, "burstbig") == 0:
                    # one of the pipelined responses is larger than 64 KiB, so that the frame after it can sit in
                    # the same read as its tail
                    lits[ch.draw(len(lits), "bigpos")] = f"!{8300 + ch.draw(300, 'bigburst')}"
                    stats["probe_big_response"] += 1
                stats["probe_burst"] += 1
                res = {}

                bigreq = ch.draw(4, "bigreq") == 0
                if bigreq:
                    # two of the pipelined REQUESTS are larger than 64 KiB as well (a sender that yields inside a frame
                    # would interleave them); the server adds 100 to every element
                    stats["probe_big_concurrent_requests"] += 1

                def one(j, lit):
                    try:
                        if bigreq and j < 2:
                            import numpy as np
                            arr = np.arange(8400 + j)
                            got = nc.call(ipc.KGRemoteFnCall(KGSym("useg"), [arr]))
                            ok = isinstance(got, np.ndarray) and got.shape == arr.shape and bool((got == arr + 100).all())
                            res[j] = ("ok", canon(twin(lit))) if ok else ("ok", ("wrong-big-result", str(getattr(got, "shape", None))))
                            return
                        res[j] = ("ok", canon(nc.call(lit)))
                    except BaseException as e:   # noqa
                        if isinstance(e, SystemExit):
                            raise
                        res[j] = ("exc", type(e).__name__)
                acts = []
                if ch.draw(4, "badreq") == 0:
                    # one more caller in the burst whose request cannot be encoded: it alone fails, the others get their answers
                    stats["probe_unencodable_request_in_burst"] += 1

                    def bad():
                        try:
                            nc.call(ipc.KGRemoteFnCall(KGSym("useg"), [lambda: 0]))
                            res["bad"] = "returned"
                        except BaseException as e:   # noqa
                            if isinstance(e, SystemExit):
                                raise
                            res["bad"] = "raised"
                    acts.append(w.spawn(f"burst{i}.bad", bad))
                acts += [w.spawn(f"burst{i}.{j}", lambda j=j, lit=lit: one(j, lit)) for j, lit in enumerate(lits)]
                w.block_until(lambda: all(a.done for a in acts), "burst.join")
                if res.get("bad") == "returned":
                    viol("C13:unencodable-request-returned", "a call whose argument cannot be pickled returned a value")
                for j, lit in enumerate(lits):
                    want = ("ok", canon(twin(lit)))
                    if res.get(j) != want:
                        viol("C13:value-mismatch:burst", f"concurrent call {lit[:60]!r} gave {str(res.get(j))[:120]}, server-local {str(want)[:120]}")
                log.append(f"burst {[l[:20] for l in lits]}")
            elif k == 7 and ch.draw(3, "nilad") == 0:
                # call form with zero arguments: f(,:name) calls the niladic function on the server (side effect included)
                stats["probe_nilad_call"] += 1
                both("fn-call", "f(,:nil)", lambda: twin("nil()"))
                both("eval-string", 'f("nctr")', lambda: twin("nctr"))
            elif k == 7:    # undefined must still test as undefined after transport
                src = ch.pick([':_f("1%0")', ":_f(:und,(,1))", ':_f("[1 2 3]?9")'], "undef")
                twin_src = {':_f("1%0")': ":_1%0", ":_f(:und,(,1))": ":_und(1)", ':_f("[1 2 3]?9")': ":_[1 2 3]?9"}[src]
                if "und" in src and "und" not in state["fns"]:
                    src, twin_src = ':_f("1%0")', ":_1%0"
                stats["probe_undefined_transported"] += 1
                both("undefined-test", src, lambda twin_src=twin_src: twin(twin_src))
            elif k == 8 and chain and ch.draw(2, "usechain"):
                # the server-side value is itself a remote handle: f(:h) must give a monadic proxy, calls go down the chain
                if "h" not in state["proxies"]:
                    both("proxy-create", "qh::f(:h)", lambda: twin("{x}"))
                    state["proxies"]["h"] = "qh"
                a_, b_ = ch.draw(50, "cha"), ch.draw(50, "chb")
                both("chain-call", f'qh("{a_}+{b_}")', lambda a_=a_, b_=b_: twin(f"{a_}+{b_}"))
            elif k == 8:    # redefine a server function with another arity, fetch a proxy again, call it
                name = ch.pick(sorted(n for n in state["fns"] if n in ("inc", "add", "tri")) or ["inc"], "rname")
                if name not in state["fns"]:
                    continue
                new_ar = ch.pick([a for a in (1, 2, 3) if a != state["fns"][name]], "newar")
                body = {1: "{x+1}", 2: "{x+y}", 3: "{(x+y)*z}"}[new_ar]
                stats["probe_remote_fn_redefined_arity"] += 1
                both("eval-string", f'f("{name}::{body}")', lambda name=name, body=body: twin(f"{name}::{body}"))
                state["fns"][name] = new_ar
                q = f"r{name}{i}"
                both("proxy-create", f"{q}::f(:{name})", lambda name=name: twin(name))
                args = [str(2 + ch.draw(20, "ran")) for _ in range(new_ar)]
                both("proxy-call", f"{q}({';'.join(args)})", lambda name=name, args=args: twin(f"{name}({';'.join(args)})"))
                state["proxies"].pop(name, None)
            elif k == 10:   # the same expression text before and after remote sets that change the kind of its variables
                if not state["dict"]:
                    cl("d::.clid(f)")
                    state["dict"] = True
                stats["probe_same_text_after_remote_set"] += 1
                expr = ch.pick(["sa=sb", "sa+sb", "sa*2", "sa,sb", "#sa", "sa<sb"], "stext")
                phases = [("3", "4"), (ch.pick([":foo", "[1 2 3]", '"ab"', "7", "[0cx]"], "s2a"), ch.pick(["[1 2 3]", ":foo", '"cd"', "7.5"], "s2b"))]
                if ch.draw(2, "s3"):
                    phases.append(("10", "20"))
                for pa, pb in phases:
                    for nm, lit in (("sa", pa), ("sb", pb)):
                        # atoms are joined as they are (d,:k,3 keeps a plain integer; d,:k,,3 would send numpy's)
                        setsrc = f"d,:{nm},,{lit}" if lit[0] in '["' else f"d,:{nm},{lit}"
                        # (the value the client's list building produces; :zzk is bound nowhere, as :sa is on the client)
                        val = twin(f":zzk,,{lit}" if lit[0] in '["' else f":zzk,{lit}")[1]
                        try:
                            cl(setsrc)
                            twin[nm] = val
                            log.append(setsrc)
                        except BaseException as e:   # noqa
                            if isinstance(e, SystemExit):
                                raise
                            viol(f"C13:dict-set-raised:{type(e).__name__}", f"d,:{nm},,{lit}: {str(e)[:80]}")
                    if violations:
                        break
                    both("eval-after-dict-set", f'f("{expr}")', lambda expr=expr: twin(expr))
                    if violations or state.get("client_exc"):
                        break
                for nm in ("sa", "sb"):
                    if nm not in state["vars"]:
                        state["vars"].append(nm)
            elif k == 11:   # equal text of different kinds, one after the other: a string, a character and a symbol stay what they are
                stats["probe_equal_text_of_different_kinds"] += 1
                trio = ['"a"', "0ca", ":a"]
                for _ in range(3):
                    expr = trio.pop(ch.draw(len(trio), "kindorder"))
                    both("eval-string", f'f("{_q(expr)}")', lambda expr=expr: twin(expr))
                    if violations or state.get("client_exc"):
                        break
            elif k == 12:   # a second client reads a server variable while this client's call is running on the server
                stats["probe_second_connection_reads_during_a_call"] += 1
                if "D" not in state:
                    from sim.klnode import Node
                    state["D"] = Node(w, net, "D")
                    state["D"].klong(f"f::.cli({PORT})")
                    state["D"].klong("d::.clid(f)")
                D = state["D"]
                res2 = {}
                delay = ch.draw(10, "getdelay")

                def getter():
                    for _ in range(delay):
                        w.yield_point("getter.wait")
                    try:
                        res2["v"] = ("ok", canon(D.klong("d?:gv")))
                    except BaseException as e:   # noqa
                        if isinstance(e, SystemExit):
                            raise
                        res2["v"] = ("exc", type(e).__name__)
                g = w.spawn(f"getter{i}", getter)
                # slow has a LOCAL named gv; the server's variable gv is [1 2 3] all along
                both("fn-call", "f(:slow,(,42))", lambda: twin("slow(42)"))
                w.block_until(lambda: g.done, "getter.join")
                want2 = ("ok", canon(twin("gv")))
                if res2.get("v") != want2:
                    viol("C13:value-mismatch:dict-get-during-another-call", f"second connection d?:gv while f(:slow,42) was running on the server gave "
                         f"{str(res2.get('v'))[:100]}; the server's gv is {str(want2)[:100]}")
            elif k == 16:
                # the answer is what the evaluation yielded.  This client asks for a dictionary the server keeps; once that request
                # HAS BEEN evaluated (the function it calls says so) another connection amends the dictionary in place: the later
                # request must not show in the earlier one's answer
                stats["probe_answer_is_a_snapshot_while_another_connection_amends_the_value"] += 1
                if "D" not in state:
                    from sim.klnode import Node
                    state["D"] = Node(w, net, "D")
                    state["D"].klong(f"f::.cli({PORT})")
                    state["D"].klong("d::.clid(f)")
                D = state["D"]
                res2 = {}
                seen = marks["n"]
                amend = f"gdict,[{700 + i} {i}]"

                def amender():
                    w.block_until(lambda: marks["n"] > seen, "amender.wait")
                    try:
                        res2["v"] = ("ok", canon(D.klong(f'f("{amend}")')))
                    except BaseException as e:   # noqa
                        if isinstance(e, SystemExit):
                            raise
                        res2["v"] = ("exc", type(e).__name__)
                g = w.spawn(f"amender{i}", amender)
                both("answer-shows-a-later-request", 'f("snapd(0)")', lambda: twin("snapd(0)"))
                if marks["n"] == seen:
                    marks["n"] += 1         # the request never got evaluated (reported above): let the helper finish
                w.block_until(lambda: g.done, "amender.join")
                want2 = ("ok", canon(twin(amend)))
                if res2.get("v") != want2 and not violations:
                    viol("C13:value-mismatch:amend-from-second-connection", f"second connection f(\"{amend}\") gave {str(res2.get('v'))[:120]}; "
                         f"the server interpreter gives {str(want2)[:120]}")
            elif k == 17:
                # a remote dictionary set that has RETURNED is stored: whoever asks the server afterwards - here another
                # connection - reads the new value ("remote-dictionary get/set ... store values that match what the same
                # operation yields locally on the server")
                stats["probe_set_returned_then_read_through_another_connection"] += 1
                if not state["dict"]:
                    cl("d::.clid(f)")
                    state["dict"] = True
                if "D" not in state:
                    from sim.klnode import Node
                    state["D"] = Node(w, net, "D")
                    state["D"].klong(f"f::.cli({PORT})")
                    state["D"].klong("d::.clid(f)")
                D = state["D"]
                big = ch.draw(3, "xset.big") == 0
                lit = ("!4000" if big else str(9000 + i))        # (a large value takes a while on the wire)
                twin(f"xv::{lit}")
                both("dict-set", f"d,:xv,,{lit};1", lambda: 1)
                res2 = {}

                def reader():
                    try:
                        res2["v"] = ("ok", canon(D.klong("d?:xv")))
                    except BaseException as e:   # noqa
                        if isinstance(e, SystemExit):
                            raise
                        res2["v"] = ("exc", type(e).__name__)
                g = w.spawn(f"reader{i}", reader)
                w.block_until(lambda: g.done, "reader.join")
                want2 = ("ok", canon(twin("xv")))
                if res2.get("v") != want2 and not violations and not state.get("client_exc"):
                    viol("C13:value-mismatch:set-returned-but-another-connection-reads-the-old-value",
                         f"d,:xv,,{lit} had returned; a second connection's d?:xv then gave {str(res2.get('v'))[:100]}; the server's xv is {str(want2)[:100]}")
            elif k == 18:
                # a program of several lines is ONE remote evaluation: two connections send such programs over the same variables
                # at the same time, each must get what its program yields on the server when evaluated on its own
                stats["probe_multi_line_programs_from_two_connections"] += 1
                if "D" not in state:
                    from sim.klnode import Node
                    state["D"] = Node(w, net, "D")
                    state["D"].klong(f"f::.cli({PORT})")
                    state["D"].klong("d::.clid(f)")
                D = state["D"]
                va, vb = 10 + i, 500 + i
                sep = ch.pick(["\n", "\n\n", ";\n"], "mlsep")
                prog = lambda v: sep.join([f"mp::{v}", f"mq::{v}", "yieldfn(0)", f"mr::{v}", "mp+mq+mr"])   # noqa: E731
                res2 = {}

                def other():
                    try:
                        res2["v"] = ("ok", canon(D.klong('f("' + prog(vb) + '")')))
                    except BaseException as e:   # noqa
                        if isinstance(e, SystemExit):
                            raise
                        res2["v"] = ("exc", type(e).__name__)
                g = w.spawn(f"other{i}", other)
                both("multi-line-program", 'f("' + prog(va) + '")', lambda: twin(prog(va)))
                w.block_until(lambda: g.done, "other.join")
                want2 = ("ok", canon(twin(prog(vb))))
                if res2.get("v") != want2 and not violations and not state.get("client_exc"):
                    viol("C13:value-mismatch:multi-line-program-from-second-connection",
                         f"two connections sent multi-line programs at the same time; the second got {str(res2.get('v'))[:100]}, on the server alone it yields {str(want2)[:100]}")
                # whichever ran last: the three variables belong to one program
                fin = both_free = None
                if not violations and not state.get("client_exc"):
                    try:
                        fin = canon(cl('f("mp,mq,mr")'))
                    except BaseException as e:   # noqa
                        if isinstance(e, SystemExit):
                            raise
                        state["client_exc"] = True
                    if fin is not None and fin not in (canon(twin(f"[{va} {va} {va}]")), canon(twin(f"[{vb} {vb} {vb}]"))):
                        viol("C13:value-mismatch:multi-line-programs-interleaved", f"after two multi-line programs the server's mp,mq,mr is {str(fin)[:100]}")
                    if fin == canon(twin(f"[{va} {va} {va}]")):
                        twin(prog(va))
            elif k == 15:   # a second handle opened by address in the same client, used and closed: every handle is a connection of its own
                stats["probe_second_handle_by_address_closed"] += 1
                both("second-handle-open", f"g{i}::.cli({PORT});1", lambda: 1)
                if not (violations or state.get("client_exc")):
                    a1, b1 = ch.draw(50, "ga"), ch.draw(50, "gb")
                    both("second-handle-eval", f'g{i}("{a1}+{b1}")', lambda: twin(f"{a1}+{b1}"))
                    both("second-handle-close", f".clic(g{i})", lambda: 1)
                    both("first-handle-after-close-of-second", f'f("{a1}*{b1}")', lambda: twin(f"{a1}*{b1}"))
                    if state.get("dict"):
                        both("dict-handle-after-close-of-second", "d?:gv", lambda: twin("gv"))
            elif k == 14:   # the server evaluates on the client through its handle of this connection
                def server_handle():
                    try:
                        return env.server.klong["cl"]
                    except KeyError:
                        return None
                w.block_until(lambda: isinstance(server_handle(), ipc.NetworkClient), "server.handle")
                snc = server_handle()
                stats["probe_server_calls_client"] += 1
                m = ch.draw(4, "rev.kind")
                if m == 0:
                    expr = gen_literal(ch, allow_undef=True, tag="re")
                    reverse("eval-string", f'cl("{_q(expr)}")', lambda expr=expr: snc.call(expr), lambda expr=expr: ctwin(expr))
                elif m == 1:
                    lit = gen_literal(ch, allow_undef=False, tag="ra")
                    val = ctwin(lit)
                    reverse("fn-call", f"cl(:cpair,,{lit},,7)", lambda val=val: snc.call(ipc.KGRemoteFnCall(KGSym("cpair"), [val, 7])),
                            lambda lit=lit: ctwin(f"cpair({lit};7)"))
                elif m == 2:
                    reverse("dict-get", "cld?:cv", lambda: ipc.NetworkClientDictHandle(snc).get(KGSym("cv")), lambda: ctwin("cv"))
                else:
                    lit = gen_literal(ch, allow_undef=False, tag="rs")
                    val = ctwin(lit)
                    nm = f"crv{i}"

                    def setget(nm=nm, val=val):
                        hnd = ipc.NetworkClientDictHandle(snc)
                        hnd.set(KGSym(nm), val)
                        return hnd.get(KGSym(nm))

                    def tsetget(nm=nm, lit=lit):
                        ctwin(f"{nm}::{lit}")
                        return ctwin(nm)
                    reverse("dict-set-get", f"cld,:{nm},,{lit}; cld?:{nm}", setget, tsetget)
                    # ... and the client itself sees what the server stored there
                    got_local = ("ok", canon(cl(nm))) if not state.get("client_exc") else None
                    if got_local is not None and got_local != ("ok", canon(ctwin(nm))):
                        viol("C13:reverse:value-mismatch:stored-value", f"the server stored {lit} as {nm} on the client; the client reads {str(got_local)[:120]}")
            elif k == 13:   # another client connects (the server's .srv.o callback runs) while this client's call is running on the server
                stats["probe_client_connects_during_a_call"] += 1
                from sim.klnode import Node
                newc = Node(w, net, f"E{i}")
                delay = ch.draw(12, "conndelay")
                res3 = {}

                def connector(newc=newc, delay=delay, res3=res3):
                    for _ in range(delay):
                        w.yield_point("connector.wait")
                    try:
                        newc.klong(f"f::.cli({PORT})")
                        res3["v"] = "ok"
                    except BaseException as e:   # noqa
                        if isinstance(e, SystemExit):
                            raise
                        res3["v"] = f"raised {type(e).__name__}"
                g = w.spawn(f"connector{i}", connector)
                both("fn-call", "f(:slowx,(,42))", lambda: twin("slowx(42)"))
                w.block_until(lambda: g.done, "connector.join")
                if res3.get("v") != "ok":
                    viol("C13:second-client-cannot-connect-during-a-call", f".cli() of a new client while f(:slowx,42) was running on the server: {res3.get('v')}")
            else:           # failing expression (only as the last operation)
                expr = ch.pick(["1+", "nosuchfn(1)", "[1 2 3]@99"], "bad")
                stats["probe_server_error_last"] += 1
                both("error", f'f("{_q(expr)}")', lambda expr=expr: twin(expr))
            if violations or state.get("client_exc"):
                return          # after a failure the shipped server drops the connection: later ops would only cascade

    a = w.spawn("client", run_ops)
    reason = w.run(until=lambda: a.done, max_steps=25000)
    if not a.done:
        viol(f"C13:hang:{reason}", f"client blocked at {a.desc} after {log[-3:]}")
    elif a.exc is not None:
        raise HarnessError(f"client script crashed: {a.exc!r}")
    # fragmentation probes from the wire: compare frames with deliveries
    frames_c2s = env.frames(0, 0)
    frames_s2c = env.frames(0, 1)
    ndeliv = stats.get("net_deliveries", 0)
    nfr = len(frames_c2s) + len(frames_s2c)
    if stats.get("net_fragments", 0):
        stats["probe_frame_fragmented"] += 1
    if nfr and ndeliv < nfr:
        stats["probe_frames_coalesced"] += 1
    sample = {"boot": boot, "ops": log[:24], "frames": nfr, "deliveries": ndeliv, "frag_mode": net.frag_mode, "policy": w.policy}
    out = {"violations": violations, "stats": dict(stats), "digest": w.digest() + w.sched_digest(), "sched": w.sched_digest(),
           "sim_time": w.now, "steps": w.steps, "nontrivial": bool(stats.get("net_fragments", 0) or (nfr and ndeliv < nfr)),
           "sample": sample, "tail": list(w.tail)}
    env.shutdown()
    return out


# ------------------------------------------------------------------- exhaustive cuts
def _pdesc(m):
    """cheap but exact descriptor of a decoded payload"""
    import zlib
    import numpy as np
    if hasattr(m, "key"):
        return ("dictget", m.key)
    if isinstance(m, np.ndarray) and m.dtype != object:
        return ("nd", m.dtype.str, m.shape, zlib.crc32(m.tobytes()))
    return repr(canon(m))


def scenario_cuts(ch, cfg):
    from klongpy import KlongInterpreter
    import klongpy.sys_fn_ipc as ipc
    kl = KlongInterpreter()
    nframes = (2 + ch.draw(2, "nframes")) if cfg.get("large") else (1 + ch.draw(3, "nframes"))
    msgs = []
    for i in range(nframes):
        m = ch.weighted([4, 2, 1], "payload")
        if cfg.get("large") and i == 0:
            # first frame larger than 64 KiB (a chunked reader must not swallow the head of the next frame)
            payload = kl(f"!{8300 + ch.draw(200, 'large')}")
        elif m == 0:
            payload = ch.pick([1, 0, "s", "", 2.5, None], "small")
        elif m == 1:
            payload = kl(ch.pick(['"hi"', "1%0", ":foo", "0ca", "[]"], "klsmall"))
        else:
            payload = ipc.KGRemoteDictGetCall(ch.pick(["a", "bb"], "key"))
        msgs.append((_uuid.UUID(int=(0xF00D << 64) | (i + 1)), payload))
    stream = b"".join(ipc.encode_message(mid, p) for mid, p in msgs)
    L = len(stream)
    want = [(mid, _pdesc(p)) for mid, p in msgs]
    loop = asyncio.new_event_loop()
    violations = []
    n = 0
    try:
        async def drain():
            for _ in range(6):
                await asyncio.sleep(0)

        async def read_all(reader, out):
            try:
                while True:
                    mid, m = await ipc.stream_recv_msg(reader)
                    out.append((mid, _pdesc(m)))
            except asyncio.IncompleteReadError as e:
                out.append(("eof", len(e.partial)))
            except Exception as e:   # noqa - a decoding failure is an outcome to be judged, not a harness error
                out.append(("exc", type(e).__name__))

        if L <= 400:
            positions = list(range(L + 1))
        else:
            # too long to enumerate: every cut position that is special for the framing or for a chunked reader -
            # around the header fields and the end of every frame, and around multiples of 64 KiB
            marks = {0, L}
            off = 0
            for mid, p in msgs:
                flen = len(ipc.encode_message(mid, p))
                for d in (0, 1, 15, 16, 17, 19, 20, 21, flen - 1, flen):
                    marks.add(off + d)
                off += flen
            for kk in range(1, L // 65536 + 1):
                for d in (-1, 0, 1):
                    marks.add(kk * 65536 + d)
                    marks.add(20 + kk * 65536 + d)
            positions = sorted(x for x in marks if 0 <= x <= L)
        for a in positions:
            for b in [x for x in positions if x >= a]:
                n += 1
                reader = asyncio.StreamReader(loop=loop)
                out = []
                task = loop.create_task(read_all(reader, out))
                for frag in (stream[:a], stream[a:b], stream[b:]):
                    if frag:
                        reader.feed_data(frag)
                    loop.run_until_complete(drain())
                reader.feed_eof()
                loop.run_until_complete(task)
                if out[:-1] != want or out[-1] != ("eof", 0):
                    if len(violations) < 3:
                        violations.append({"sig": "C13:cuts:messages-differ",
                                           "msg": f"{nframes} frame(s), {L} bytes cut at ({a},{b}): decoded {str(out)[:200]} expected {str(want)[:200]}"})
    finally:
        loop.close()
    sample = {"frames": [str(w_)[:60] for w_ in want], "stream_bytes": L, "cut_patterns": n}
    return {"violations": violations, "stats": {"probe_cut_patterns": n}, "evaluations": n, "digest": None,
            "nontrivial_keys": [f"cuts:{L}:{nframes}:{__import__("zlib").crc32(stream)}"], "sample": sample, "tail": []}
