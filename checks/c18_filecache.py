"""C18 - FileCache is linearizable under concurrent get / update / unload.

Real klongpy.db.file_cache.FileCache; its lock, executor, open/os/time are replaced from the
harness by scheduler-controlled versions.  2-3 client actors, 1-2 ops each, 1-2 files.
History checked per file against a sequential register (Wing-Gong search); final state and
accounting checked at quiescence.
"""
import itertools

from sim.world import World, SimLock, SimExecutor, install_patches, HarnessError
from sim.simfs import SimFS

PROPERTY = "C18"
LEVEL = "exploration"
RULE = ("each run = one seeded schedule of 2-3 client threads (1-2 ops each from get/update/unload on 1-2 files) plus "
        "the worker tasks they spawn, interleaved at lock acquire/release, submit, task start/finish, future waits and "
        "every file-system call (optionally also at drawn source lines of file_cache.py); a run is non-trivial when at "
        "least one context switch happened while an operation was in flight; distinct = distinct digest of the "
        "(actor,event) sequence plus operation results.  Drawn per run: names with a directory part, durable updates (use_fsync), "
        "cache limit (fits one / two / all), warm entries; df configuration: update / get / unload on one table that may exist "
        "before the run; iofault configuration: one transient read error")
ASSUMPTIONS = [
    "pre-emption only at intercepted points (lock, submit, future wait, FS call) and, in the 'lines' configuration, at line events of klongpy/db/file_cache.py",
    "SimFS models a POSIX namespace with atomic per-call semantics",
    "values never exceed the cache limit (MemoryError for oversize values is specified behaviour, see C16)",
]
REAL_STUB = {
    "real": ["klongpy.db.file_cache.FileCache (all methods)", "klongpy.db.df_cache.PandasDataFrameCache (df configuration)",
             "io.BufferedReader/BufferedWriter", "concurrent.futures.Future", "pandas"],
    "stub": ["threading.Lock -> SimLock", "ThreadPoolExecutor -> SimExecutor (one actor per task)", "open/os -> SimFS",
             "time.time_ns -> virtual counter", "OS thread scheduler -> baton passing World"],
}
EXPECTED_PROBES = ["probe_second_writer_saw_writing", "probe_get_joined_inflight_load", "probe_evicted_during_run",
                   "probe_update_during_inflight_load", "probe_unload_during_inflight", "probe_names_with_directory_part", "probe_df_unload",
                   "probe_file_larger_than_the_cache"]
WALL_CAP = {"quick": 300, "thorough": 3600}

_fc = None


def setup_worker():
    global _fc
    install_patches()
    import klongpy.db.file_cache as fc
    _fc = fc


def plan(tier):
    if tier == "quick":
        return [("base", {"lines": 0}, 12000, 250), ("lines", {"lines": 1}, 4000, 250), ("df", {"df": 1}, 4000, 100),
                ("iofault", {"lines": 0, "iofault": 1}, 2500, 250), ("hot", {"lines": 1, "hot": HOT, "hot_budget": 3}, 3000, 250)]
    # thorough adds a 'deep' configuration beyond the bounds of the property text: up to 3 operations per client
    return [("base", {"lines": 0}, 400000, 1000), ("lines", {"lines": 1}, 150000, 1000), ("df", {"df": 1}, 80000, 250),
            ("deep", {"lines": 1, "deep": 1}, 100000, 500), ("iofault", {"lines": 0, "iofault": 1}, 60000, 500),
            ("hot", {"lines": 1, "hot": HOT, "hot_budget": 3}, 100000, 500)]


class _Time:
    def __init__(self):
        self.n = 1000

    def time_ns(self):
        self.n += 1
        return self.n

    def time(self):
        self.n += 1
        return self.n / 1e9


ROOT = "/c"
# functions of the cache whose every source line is a pre-emption chance of its own in the 'hot' configuration
HOT = ["get_file", "update_file", "unload_file", "_unload_file", "_write_file", "_load_file", "update_file_futures_and_memory", "recover_memory"]


def _linearizable(ops, init, limit=None):
    """ops: list of dicts (kind, arg, inv, ret, result).  Sequential register over bytes|None.
    Returns (ok, set of possible final values)."""
    n = len(ops)
    finals = set()
    order_before = [[j for j in range(n) if ops[j]["ret"] < ops[i]["inv"]] for i in range(n)]

    def apply(state, op):
        k = op["kind"]
        r = op["result"]
        if k == "get":
            if state is None:
                return (r == ("exc", "FileNotFoundError")), state
            if limit is not None and len(state) > limit and r == ("exc", "MemoryError"):
                return True, state       # contents larger than the cache: refusing the read is specified; answering it is fine too
            return (r == ("ok", state)), state
        if k == "update":
            if r == ("ok", True):
                return True, op["arg"]
            if r == ("ok", False):
                return True, state
            return False, state
        if k == "unload":
            return (r == ("ok", None)), state
        return False, state

    def dfs(done, state):
        if len(done) == n:
            finals.add(state)
            return True
        found = False
        for i in range(n):
            if i in done:
                continue
            if any(j not in done for j in order_before[i]):
                continue
            ok, ns = apply(state, ops[i])
            if ok:
                if dfs(done | {i}, ns):
                    found = True
        return found

    ok = dfs(frozenset(), init)
    return ok, finals


def scenario(ch, cfg):
    if cfg.get("df"):
        return scenario_df(ch, cfg)
    fc = _fc
    w = World(ch, max_steps=6000)
    fs = SimFS(w, ROOT)
    fc.open = fs.open
    fc.os = fs.os
    fc.time = _Time()
    nfiles = 1 + ch.weighted([3, 1], "nfiles")
    # one run in three uses names with a directory part (the documented "tables/prices" form); the directory exists
    # only if one of the files does
    nested = ch.draw(3, "nested") == 0
    files = (["t/a", "t/b"] if nested else ["a", "b"])[:nfiles]
    if nested:
        w.stats["probe_names_with_directory_part"] += 1
    init = {}
    for f in files:
        if ch.weighted([4, 1], "absent") == 0:
            init[f] = f"init-{f}".encode() + b"!" * ch.draw(3, "initlen")
            fs.files[f"{ROOT}/{f}"] = bytearray(init[f])
            if "/" in f:
                fs.dirs.add(f"{ROOT}/{f.rsplit('/', 1)[0]}")
        else:
            init[f] = None
    # one run in six: a file that is there before the cache and is larger than the cache will be allowed to grow (the
    # directory outlives any one configuration): reading it may be refused with MemoryError, or answered with what the
    # file holds - never with something it never held; updates (within the limit) replace it as usual
    oversized = None
    present = [f for f in files if init[f] is not None]
    if present and ch.draw(6, "oversized") == 0:
        oversized = present[ch.draw(len(present), "oversized.which")]
        init[oversized] = f"init-{oversized}".encode() + b"#" * 40
        fs.files[f"{ROOT}/{oversized}"] = bytearray(init[oversized])
        w.stats["probe_file_larger_than_the_cache"] += 1
    nclients = 2 + ch.weighted([2, 1], "nclients")
    # unique values
    vals = itertools.count(1)
    plans = []
    maxlen = max([len(v) for f_, v in init.items() if v is not None and f_ != oversized] + [4])
    for c in range(nclients):
        nops = 1 + (ch.weighted([2, 2, 1], "nops") if cfg.get("deep") else ch.weighted([2, 1], "nops"))
        ops = []
        for _ in range(nops):
            kind = ["get", "update", "unload"][ch.weighted([4, 4, 2], "opkind")]
            f = files[ch.draw(nfiles, "file")]
            arg = None
            if kind == "update":
                i = next(vals)
                arg = f"v{i}".encode() + b"." * ch.draw(4, "vlen")
                maxlen = max(maxlen, len(arg))
            # the durable form of an update (what the key-value store always uses) takes the same path plus an fsync
            ops.append({"kind": kind, "file": f, "arg": arg, "client": c, "fsync": kind == "update" and ch.draw(3, "fsync") == 0})
        plans.append(ops)
    lim_kind = ch.weighted([3, 3, 2], "limit")
    limit = [1 << 20, maxlen, 2 * maxlen][lim_kind]
    cache = fc.FileCache(max_memory=limit, root_path=ROOT)
    cache.executor.shutdown(wait=False)
    cache.file_futures_lock = SimLock(w, "cachelock")
    cache.executor = SimExecutor(w, "w")
    if cfg.get("lines"):
        w.enable_line_preemption([fc.__file__], 1 + ch.draw(3, "budget"), gap=60, hot=cfg.get("hot", ()), hot_budget=cfg.get("hot_budget", 0))
    # fault-injecting configuration (kept apart from the fault-free ones): one transient read error.  The
    # relaxation is narrow: a get may then raise OSError and is left out of the history; a load entry whose
    # future failed may stay behind; everything else (updates, other gets, disk/cache agreement, accounting of
    # the healthy entries) is judged exactly as without the fault.
    iofault = {"fired": False, "at": ch.draw(2, "ioat"), "seen": 0} if cfg.get("iofault") else None
    if iofault is not None:
        import errno as _errno

        def hook(kind, path):
            if kind == "open" and iofault.get("armed") and not iofault["fired"]:
                if iofault["seen"] == iofault["at"]:
                    iofault["fired"] = True
                    w.stats["fs_fault_read_open_EIO"] += 1
                    raise OSError(_errno.EIO, "injected I/O error")
                iofault["seen"] += 1
        fs.fault_hook = hook
    history = []
    stats = w.stats

    # optional warm-up: preload some files so that entries are cached when the clients start
    warm = [f for f in files if init[f] is not None and ch.draw(2, "warm") and (f != oversized or lim_kind == 0)]

    def warmup():
        for f in warm:
            cache.get_file(f)
    if warm:
        wa = w.spawn("warm", warmup)
        w.run(until=lambda: wa.done)
        if wa.exc is not None or not wa.done:
            what = "blocked forever" if not wa.done else f"raised {type(wa.exc).__name__}"
            out = {"violations": [{"sig": f"C18:warmup-get:{'hang' if not wa.done else type(wa.exc).__name__}",
                                   "msg": f"uncontended get_file of an existing file {what}"}],
                   "stats": dict(stats), "digest": w.digest(), "sched": w.sched_digest(), "steps": w.steps,
                   "sample": {"warm": warm}, "tail": list(w.tail)}
            w.shutdown()
            return out

    def probe_before(op):
        info = cache.file_futures.get(op["file"])
        if info is None:
            return
        fut = info[-1]
        if op["kind"] == "update":
            if info[0] is True and not fut.done():
                stats["probe_second_writer_saw_writing"] += 1
            elif not fut.done():
                stats["probe_update_during_inflight_load"] += 1
        elif op["kind"] == "get":
            if not fut.done():
                stats["probe_get_joined_inflight_load"] += 1
        elif op["kind"] == "unload":
            if not fut.done():
                stats["probe_unload_during_inflight"] += 1

    def client(ops):
        for op in ops:
            w.yield_point("invoke")
            probe_before(op)
            op["inv"] = w.steps
            w.note(f"inv c{op['client']} {op['kind']} {op['file']} {op['arg']}")
            sw0 = w.switches
            try:
                if op["kind"] == "get":
                    r = ("ok", bytes(cache.get_file(op["file"])))
                elif op["kind"] == "update":
                    r = ("ok", cache.update_file(op["file"], op["arg"], use_fsync=True) if op.get("fsync")
                         else cache.update_file(op["file"], op["arg"]))
                else:
                    r = ("ok", cache.unload_file(op["file"]))
            except SystemExit:
                raise
            except BaseException as e:   # noqa
                r = ("exc", type(e).__name__)
                op["excmsg"] = str(e)[:120]
            op["result"] = r
            op["ret"] = w.steps
            op["switched"] = w.switches > sw0
            w.note(f"ret c{op['client']} {op['kind']} {op['file']} {r}")
            history.append(op)
            w.yield_point("return")

    if iofault is not None:
        iofault["armed"] = True
    actors = [w.spawn(f"c{i}", lambda ops=ops: client(ops)) for i, ops in enumerate(plans)]
    n_entries0 = len(cache.file_futures)
    reason = w.run()
    violations = []
    allops = [op for ops in plans for op in ops]

    def overlap_kinds(op):
        ks = {op["kind"]}
        for o in allops:
            if o is op or o["file"] != op["file"] or "inv" not in o:
                continue
            if "ret" not in o or "ret" not in op or (o["inv"] <= op.get("ret", 1 << 60) and op["inv"] <= o.get("ret", 1 << 60)):
                ks.add(o["kind"])
        return "+".join(sorted(ks))

    if reason != "quiescent":
        violations.append({"sig": f"C18:no-quiescence:{reason}", "msg": f"run ended by {reason} after {w.steps} steps"})
    blocked = [a for a in actors if not a.done]
    for a in blocked:
        violations.append({"sig": "C18:hang", "msg": f"client {a.name} blocked forever at {a.desc}"})
    for a in actors:
        if a.done and a.exc is not None:
            raise HarnessError(f"client crashed: {a.exc!r}")
    if not blocked:
        for op in allops:
            r = op.get("result")
            if r and r[0] == "exc":
                expected = op["kind"] == "get" and (r[1] == "FileNotFoundError" or (r[1] == "MemoryError" and op["file"] == oversized))
                if op["kind"] == "get" and r[1] == "OSError" and iofault is not None and iofault["fired"] and "injected" in op.get("excmsg", ""):
                    expected = True      # the injected read error surfaced in a get: allowed, and only there
                    op["faulted"] = True
                if not expected:
                    violations.append({"sig": f"C18:exc:{r[1]}:{overlap_kinds(op)}",
                                       "msg": f"{op['kind']}({op['file']}) raised {r[1]}: {op.get('excmsg', '')}"})
        finals = {}
        for f in files:
            fops = [op for op in allops if op["file"] == f and not op.get("faulted")]
            bad_exc = any(op["result"][0] == "exc" and not (op["kind"] == "get" and (op["result"][1] == "FileNotFoundError" or
                                                                                     (op["result"][1] == "MemoryError" and f == oversized)))
                          for op in fops)
            if bad_exc:
                finals[f] = None
                continue
            init_state = init[f]
            ok, fin = _linearizable(fops, init_state, limit=limit)
            finals[f] = fin
            if not ok:
                kinds = "+".join(sorted({op["kind"] for op in fops}))
                desc = "; ".join(f"c{op['client']}:{op['kind']}({op['arg']})->{op['result'][1]!r}@[{op['inv']},{op['ret']}]" for op in fops)
                violations.append({"sig": f"C18:nonlinearizable:{kinds}", "msg": f"file {f} init={init_state!r}: {desc}"})
        # final state at quiescence
        total = 0
        for name, info in list(cache.file_futures.items()):
            if info[0]:
                if iofault is not None and iofault["fired"] and info[0] is not True and info[-1].done() and info[-1].exception() is not None:
                    continue        # the entry of the load that hit the injected error (shipped behaviour: it stays behind)
                violations.append({"sig": "C18:final:entry-still-busy", "msg": f"{name} {info[:2]}"})
                continue
            total += info[1]
            fut = info[-1]
            if not fut.done():
                violations.append({"sig": "C18:final:future-not-done", "msg": name})
                continue
            try:
                cached = bytes(fut.result())
            except SystemExit:
                raise
            except BaseException as e:   # noqa
                violations.append({"sig": f"C18:final:cached-future-failed:{type(e).__name__}", "msg": f"{name}: {e}"})
                continue
            disk = fs.files.get(f"{ROOT}/{name}")
            if disk is None or bytes(disk) != cached:
                violations.append({"sig": "C18:final:cache-differs-from-disk",
                                   "msg": f"{name}: cached={cached!r} disk={None if disk is None else bytes(disk)!r}"})
            if info[1] != len(cached):
                violations.append({"sig": "C18:final:entry-bytes-wrong", "msg": f"{name}: entry says {info[1]}, content {len(cached)}"})
        if cache.current_memory_usage != total:
            violations.append({"sig": "C18:final:accounting-sum", "msg": f"usage={cache.current_memory_usage} sum={total}"})
        if not (0 <= cache.current_memory_usage <= cache.max_memory):
            violations.append({"sig": "C18:final:accounting-range", "msg": f"usage={cache.current_memory_usage} max={cache.max_memory}"})
        for f in files:
            fin = finals.get(f)
            if not fin:
                continue
            disk = fs.files.get(f"{ROOT}/{f}")
            disk = None if disk is None else bytes(disk)
            if disk not in fin:
                violations.append({"sig": "C18:final:disk-not-last-update",
                                   "msg": f"{f}: disk={disk!r} admissible={sorted(map(repr, fin))}"})
    if len(cache.file_futures) < n_entries0 + 0 and any(op["kind"] != "unload" for op in allops):
        stats["probe_evicted_during_run"] += 1
    if lim_kind != 0:
        stats["probe_small_limit_runs"] += 1
    nontrivial = any(op.get("switched") for op in allops)
    state_key = f"{sorted((k, v[0], v[1]) for k, v in cache.file_futures.items())}|{cache.current_memory_usage}|{len(cache.file_access_times)}"
    sample = {"files": {f: (None if v is None else v.decode()) for f, v in init.items()}, "limit": limit, "warm": warm,
              "clients": [[f"{op['kind']}({op['file']}{'' if op['arg'] is None else ',' + op['arg'].decode()})" for op in ops] for ops in plans],
              "history": [f"c{op['client']}:{op['kind']}({op['file']})->{op['result'][1]!r}@[{op['inv']},{op['ret']}]" for op in history]}
    out = {"violations": violations, "stats": dict(stats), "digest": w.digest() + w.sched_digest(), "sched": w.sched_digest(),
           "state_keys": [state_key], "sim_time": w.now, "steps": w.steps, "nontrivial": nontrivial, "sample": sample,
           "tail": list(w.tail)}
    leaked = w.shutdown()
    if leaked:
        out["stats"]["threads_leaked"] = leaked
    return out


# --------------------------------------------------------------------------- df
def scenario_df(ch, cfg):
    """PandasDataFrameCache.update: per-file append lock + retry loop.  Oracle: every update
    returns a frame containing its own rows; the final table on disk and in cache is the union
    of all rows (unique indices); every get returns a union of a real-time-consistent subset."""
    import pandas as pd
    import klongpy.db.df_cache as dfc
    from klongpy.db.helpers import deserialize_df
    from sim.world import ThreadingShim
    fc = _fc
    w = World(ch, max_steps=12000)
    fs = SimFS(w, ROOT)
    fc.open = fs.open
    fc.os = fs.os
    fc.time = _Time()
    dfc.threading = ThreadingShim(w)
    cache = dfc.PandasDataFrameCache(max_memory=1 << 26, root_path=ROOT)
    cache.executor.shutdown(wait=False)
    cache.file_futures_lock = SimLock(w, "cachelock")
    cache.executor = SimExecutor(w, "w")
    if ch.draw(3, "dflines") == 2:
        w.enable_line_preemption([dfc.__file__, fc.__file__], 1 + ch.draw(2, "budget"), gap=80)
    nclients = 2 + ch.draw(2, "nclients")
    plans = []
    nxt = itertools.count(1)
    # the table may exist already (then the first access is a load from disk)
    init_rows = [1, 2] if ch.weighted([1, 1], "dfinit") else []
    if init_rows:
        from klongpy.db.helpers import serialize_df
        fs.files[f"{ROOT}/t"] = bytearray(serialize_df(pd.DataFrame({"v": [r * 2 for r in init_rows]}, index=init_rows)))
    mix = [[3, 1, 1], [1, 1, 1], [2, 1, 2]][ch.draw(3, "dfmix")]   # per-run workload mix (update, get, unload)
    for c in range(nclients):
        ops = []
        for _ in range(1 + ch.draw(2, "nops")):
            k = ch.weighted(mix, "dfop")
            if k == 0:
                i = next(nxt)
                ops.append({"kind": "update", "rows": [i * 10, i * 10 + 1], "client": c})
            elif k == 1:
                ops.append({"kind": "get", "client": c})
            else:
                ops.append({"kind": "unload", "client": c})
        plans.append(ops)
    history = []

    def client(ops):
        for op in ops:
            w.yield_point("invoke")
            op["inv"] = w.steps
            sw0 = w.switches
            try:
                if op["kind"] == "update":
                    df = pd.DataFrame({"v": [r * 2 for r in op["rows"]]}, index=op["rows"])
                    r = cache.update("t", df)
                    op["result"] = ("ok", sorted(int(x) for x in r.index))
                elif op["kind"] == "unload":
                    w.stats["probe_df_unload"] += 1
                    op["result"] = ("ok", bool(cache.unload_file("t")))
                else:
                    r = cache.get_dataframe("t")
                    op["result"] = ("ok", sorted(int(x) for x in r.index))
            except SystemExit:
                raise
            except BaseException as e:   # noqa
                op["result"] = ("exc", type(e).__name__)
                op["excmsg"] = str(e)[:120]
            op["ret"] = w.steps
            op["switched"] = w.switches > sw0
            w.note(f"c{op['client']} {op['kind']} {op['result']}")
            history.append(op)

    actors = [w.spawn(f"c{i}", lambda ops=ops: client(ops)) for i, ops in enumerate(plans)]
    reason = w.run()
    violations = []
    allops = [op for ops in plans for op in ops]
    if reason != "quiescent":
        violations.append({"sig": f"C18:df:no-quiescence:{reason}", "msg": reason})
    blocked = [a for a in actors if not a.done]
    for a in blocked:
        violations.append({"sig": "C18:df:hang", "msg": f"{a.name} blocked at {a.desc}"})
    for a in actors:
        if a.done and a.exc is not None:
            raise HarnessError(f"client crashed: {a.exc!r}")
    if not blocked:
        allrows = sorted(init_rows + [r for op in allops if op["kind"] == "update" for r in op["rows"]])
        for op in allops:
            if op["result"][0] == "exc":
                violations.append({"sig": f"C18:df:exc:{op['result'][1]}:{op['kind']}", "msg": op.get("excmsg", "")})
                continue
            if op["kind"] == "unload":
                continue
            got = op["result"][1]
            must = set(init_rows)
            may = set(init_rows)
            for o in allops:
                if o["kind"] != "update" or o["result"][0] != "ok":
                    continue
                if o is op or o["ret"] < op["inv"]:
                    must |= set(o["rows"])
                if o["inv"] <= op["ret"]:
                    may |= set(o["rows"])
            if not (must <= set(got) <= may):
                violations.append({"sig": f"C18:df:rows:{op['kind']}",
                                   "msg": f"{op['kind']} returned rows {got}; must include {sorted(must)}, may include {sorted(may)}"})
        disk = fs.files.get(f"{ROOT}/t")
        if allrows:
            if disk is None:
                violations.append({"sig": "C18:df:final:no-file", "msg": "no table file"})
            else:
                ddf = deserialize_df(bytes(disk))
                drows = sorted(int(x) for x in ddf.index)
                if drows != allrows:
                    violations.append({"sig": "C18:df:final:lost-rows", "msg": f"disk rows {drows} expected {allrows}"})
            info = cache.file_futures.get("t")
            if info is not None and not info[0] and info[-1].done():
                crows = sorted(int(x) for x in info[-1].result().index)
                if crows != allrows:
                    violations.append({"sig": "C18:df:final:cache-rows", "msg": f"cached rows {crows} expected {allrows}"})
        total = sum(v[1] for v in cache.file_futures.values() if not v[0])
        if cache.current_memory_usage != total:
            violations.append({"sig": "C18:df:final:accounting-sum", "msg": f"usage={cache.current_memory_usage} sum={total}"})
    stats = w.stats
    sample = {"df_clients": [[f"{op['kind']}{op.get('rows', '')}" for op in ops] for ops in plans],
              "history": [f"c{op['client']}:{op['kind']}->{op['result']}@[{op['inv']},{op['ret']}]" for op in history]}
    out = {"violations": violations, "stats": dict(stats), "digest": w.digest() + w.sched_digest(), "sched": w.sched_digest(),
           "sim_time": w.now, "steps": w.steps, "nontrivial": any(op.get("switched") for op in allops), "sample": sample,
           "tail": list(w.tail)}
    w.shutdown()
    return out
