"""C20 - web routes and websocket messages reach their Klong handler exactly once, intact.

HTTP: real `.web(port;get;post)` (real aiohttp stack) on a simulated node; requests come from a
scripted raw-HTTP peer over SimNet (drawn fragmentation, disconnects at a drawn byte).  WS: real
`.ws(uri)` client against a real `websockets.serve` peer on another SimLoop.  A Python recorder
installed through the public API logs every handler invocation; a twin interpreter evaluates
the same handler on the same dictionary for the expected response text.
"""
import asyncio
import json
import urllib.parse

from sim.klnode import Node
from sim.simloop import SimLoop, SimNet
from sim.world import HarnessError, ThreadingShim, World, install_patches

PROPERTY = "C20"
LEVEL = "exploration"
RULE = ("(http) each run = a route table of <=3 GET and <=3 POST routes with distinct handlers (some sharing a prefix) and a "
        "sequence of 1-8 steps drawn from: good GET/POST with a parameter dictionary (empty, several keys, non-ASCII, characters "
        "needing URL encoding), unknown path, wrong method, raising handler, handler redefinition, two concurrent requests, "
        "keep-alive reuse, client disconnect at a drawn byte of the request, .webc then connect; (ws) 1-8 pushed JSON messages "
        "over all JSON kinds, values sent through the connection, peer close mid-sequence; all under a seeded schedule and "
        "seeded stream fragmentation; non-trivial = >= 2 requests/messages and (a fragmented stream or an error/disconnect "
        "step); distinct = digest of the event log.  Also drawn: routes ending in a slash, POST with a query string, a handler "
        "name holding a plain value for a while; websocket: two connections, messages of 70 kB / 170 kB, sends of computed "
        "numbers, of dictionaries with numeric keys and of a dictionary amended in place between sends")
ASSUMPTIONS = [
    "no repeated query keys; handlers have arity 1 (web) / 2 (.ws.m) as the docs require",
    "an incomplete request carries no obligation except that no handler sees it and the server keeps serving",
    "TCP model as in C14; websocket keep-alive timers run on the virtual clock",
]
REAL_STUB = {
    "real": ["klongpy.web.sys_fn_web (.web, .webc, per-route closures)", "aiohttp 3.9 web.Application/AppRunner/TCPSite/RequestHandler and HTTP parser",
             "klongpy.ws.sys_fn_ws (.ws, NetworkClient, JSON codec, dispatch to .ws.m)", "websockets 12 client and server protocol",
             "KGFnWrapper dynamic resolution", "KlongInterpreter"],
    "stub": ["event loops -> SimLoop", "TCP -> SimNet", "HTTP client -> scripted raw-bytes peer on a harness loop", "threading.Event in sys_fn_ws -> SimEvent"],
}
EXPECTED_PROBES = ["probe_get_ok", "probe_post_ok", "probe_unknown_path", "probe_wrong_method", "probe_handler_raised", "probe_redefined",
                   "probe_concurrent_pair", "probe_keepalive_reuse", "probe_disconnect_mid_request", "probe_webc", "probe_nonascii_param",
                   "probe_ws_pushed", "probe_ws_sent", "probe_ws_peer_close", "probe_ws_mixed_list", "probe_ws_object",
                   "probe_ws_handler_amends_its_message", "probe_ws_same_text_repeated", "probe_post_chunked", "probe_post_multipart",
                   "probe_klongloop_evaluation_beside_requests", "probe_ws_binary_frame",
                   "probe_handler_rebound_to_non_function", "probe_request_while_handler_is_not_a_function", "probe_post_with_query_string",
                   "probe_ws_send_mutated_dict", "probe_ws_two_connections",
                   "probe_second_web_server", "probe_request_to_second_web_server", "probe_other_web_server_after_webc", "probe_web_bind_address_text",
                   "probe_handler_answers_a_live_dictionary", "probe_request_waits_45s_for_the_interpreter"]
WALL_CAP = {"quick": 400, "thorough": 3600}
PORT = 8080
PORT2 = 8081
WSPORT = 9000


def setup_worker():
    install_patches()
    import klongpy.web.sys_fn_web  # noqa
    import klongpy.ws.sys_fn_ws  # noqa


def plan(tier):
    if tier == "quick":
        return [("http", {"mode": "http"}, 1800, 50), ("ws", {"mode": "ws"}, 1200, 50), ("http-busy", {"mode": "http", "bg": 1}, 600, 50)]
    return [("http", {"mode": "http"}, 60000, 100), ("ws", {"mode": "ws"}, 40000, 100), ("http-busy", {"mode": "http", "bg": 1}, 30000, 100)]


PATHS = ["/", "/a", "/a/b", "/ab", "/p", "/a/b/c", "/q", "/t/", "/a/d/"]     # incl. paths that end in a slash: "/t/" is not "/t"
KEYS = ["a", "b", "k k", "é", "x&y", "q=1", "n"]
VALS = ["1", "hello", "é z", "a+b", "100%", "", "a&b=c", "中"]
# handler bodies: (source after the rec call, raises?)
BODIES = [('"one"', False), ("42", False), ('x?"a"', False), ("[1 2 3]", False), ("2.5", False), ('"t:",(x?"b")', False), ("boom(1)", True),
          ("(:{[1 2]})@7", True),      # fails with a KeyError (index of a missing dictionary key)
          (".x(3)", True)]             # leaves its evaluation through an exit: a failing handler like any other (400, server goes on)


def _fresh_modules():
    """Module-level state a change may introduce (a registry of servers or connections) starts every run from a fresh
    process's state: otherwise a run depends on what earlier runs of the same worker left behind and does not replay."""
    import sys
    for name in [n for n in sys.modules if n == "klongpy.web" or n.startswith("klongpy.web.") or n == "klongpy.ws" or n.startswith("klongpy.ws.")]:
        del sys.modules[name]
    import klongpy.web.sys_fn_web  # noqa
    import klongpy.ws.sys_fn_ws  # noqa


def scenario(ch, cfg):
    _fresh_modules()
    if cfg["mode"] == "ws":
        return scenario_ws(ch, cfg)
    from klongpy import KlongInterpreter
    w = World(ch, max_steps=60000)
    net = SimNet(w)
    stats = w.stats
    srv = Node(w, net, "S", modules=["klongpy.web"])
    twin = KlongInterpreter()
    H = SimLoop(w, "H", net)
    H.start()
    reclog = []

    bg = bool(cfg.get("bg"))

    snap_by_obj = {}

    def rec(x, y):
        reclog.append((int(x), dict(y)))
        if bg:
            # what the live dictionary gd looks like while this handler runs (nothing else evaluates meanwhile): the text
            # of the handler's result, should the handler answer gd
            snap_by_obj[id(reclog[-1][1])] = str(srv.klong["gd"])
        if bg:
            if inflight["bg"]:
                stats["probe_handler_started_inside_a_klongloop_evaluation"] += 1
            inflight["handler"] += 1
            for _ in range(8):
                w.yield_point("handler")       # a handler takes a while: the server's other loop runs meanwhile
            inflight["handler"] -= 1
        return 1
    srv.klong["rec"] = rec
    # http-busy: the same process also evaluates on its klong loop while requests come in - a timer, the REPL, an IPC request
    # (examples/db/server.kg runs .web, .timer and -s together): the handler still gets its request's dictionary and answers
    # with its own result, and the other evaluation still gets its own
    bgres = []
    inflight = {"bg": 0, "handler": 0}
    long_eval = {"left": 1 if (bg and ch.draw(3, "long-evaluation") == 0) else 0}

    def bgy(x):
        if inflight["handler"]:
            stats["probe_klongloop_evaluation_started_inside_a_handler"] += 1
        inflight["bg"] += 1
        for i_ in range(40):
            w.yield_point("klongloop.work")    # an evaluation that takes a while (a timer callback flushing a table, a remote request)
            if long_eval["left"] and i_ > 20 and pending_req["raw"] is not None:
                # ... once per run a really long while: 45 virtual seconds pass with a request waiting for the interpreter;
                # it is still served when the interpreter is free (nothing in the property puts a deadline on a request)
                long_eval["left"] = 0
                w.now += 45.0
                stats["probe_request_waits_45s_for_the_interpreter"] += 1
        inflight["bg"] -= 1
        return 0
    srv.klong["bgy"] = bgy
    bgn = {"n": 0}

    def bgnext(x):
        bgn["n"] += 1
        return bgn["n"]
    srv.klong["bgnext"] = bgnext
    twin["rec"] = lambda x, y: 1
    # ---- route table
    nget = ch.draw(4, "nget")
    npost = ch.draw(4, "npost") if nget else 1 + ch.draw(3, "npost")
    pool = list(PATHS)
    routes = {"GET": {}, "POST": {}}
    hid = 0
    defs = {}
    for method, n in (("GET", nget), ("POST", npost)):
        avail = list(pool)
        for _ in range(n):
            path = avail.pop(ch.draw(len(avail), "path"))
            hid += 1
            body, raises = ch.pick(BODIES, "body")
            if bg and ch.draw(3, "live-dict-result") == 0:
                # the handler answers a live global dictionary that the klong loop's next evaluation amends in place
                body, raises = "gd", False
                stats["probe_handler_answers_a_live_dictionary"] += 1
            name = f"h{hid}"
            defs[name] = {"id": hid, "body": body, "raises": raises, "version": 0}
            routes[method][path] = name
    # a second web server in the same process (another port, a table of its own that prefers the SAME paths with other
    # handlers): every request reaches the handler of the table of the port it was sent to; .webc of one leaves the other
    two = ch.draw(3, "second-server") == 0
    routes2 = {"GET": {}, "POST": {}}
    if two:
        stats["probe_second_web_server"] += 1
        for method in ("GET", "POST"):
            avail = list(routes[method]) + [p_ for p_ in pool if p_ not in routes[method]]
            for _ in range(1 + ch.draw(2, "n2")):
                path = avail.pop(0 if ch.draw(3, "samepath") else ch.draw(len(avail), "path2"))
                hid += 1
                body, raises = ch.pick(BODIES, "body2")
                name = f"h{hid}"
                defs[name] = {"id": hid, "body": body, "raises": raises, "version": 0}
                routes2[method][path] = name
    tables = {PORT: routes, PORT2: routes2}
    cur = {"port": PORT, "routes": routes}

    def hsrc(name):
        d = defs[name]
        return f'{name}::{{rec({d["id"] + 100 * d["version"]};x);{d["body"]}}}'

    boot_src = [hsrc(n) for n in defs] + (["gd:::{}"] if bg else []) + ["get:::{}", "post:::{}"]
    if bg:
        twin("gd:::{}")
    for path, name in routes["GET"].items():
        boot_src.append(f'get,"{path}",{name}')
    for path, name in routes["POST"].items():
        boot_src.append(f'post,"{path}",{name}')
    if two:
        boot_src += ["get2:::{}", "post2:::{}"]
        for path, name in routes2["GET"].items():
            boot_src.append(f'get2,"{path}",{name}')
        for path, name in routes2["POST"].items():
            boot_src.append(f'post2,"{path}",{name}')
    for line in boot_src[:len(defs)]:
        twin(line)
    for n in defs:
        if twin[n].fn.arity != 1:
            raise HarnessError(f"handler {n} has inferred arity {twin[n].fn.arity}")

    def boot():
        for line in boot_src:
            srv.klong(line)
        # the address is a port or a "bind:port" text
        if ch.draw(3, "bind-form") == 0:
            stats["probe_web_bind_address_text"] += 1
            srv.klong(f'wh::.web("127.0.0.1:{PORT}";get;post)')
        else:
            srv.klong(f"wh::.web({PORT};get;post)")
        if two:
            srv.klong(f"wh2::.web({PORT2};get2;post2)")
    box = srv.on_klongloop(boot)
    w.run(until=lambda: (PORT in net.listeners and (not two or PORT2 in net.listeners)) or "exc" in box, max_steps=12000)
    if "exc" in box:
        raise HarnessError(f"boot failed: {box['exc']!r}")
    if PORT not in net.listeners:
        out = {"violations": [{"sig": "C20:http:server-never-listens", "msg": ".web returned but the port is not served"}],
               "stats": dict(stats), "digest": w.digest(), "steps": w.steps, "sample": {"routes": routes}, "tail": list(w.tail)}
        w.shutdown()
        return out
    # ---- step plan
    nsteps = 1 + ch.draw(8, "nsteps")
    steps = []
    for _ in range(nsteps):
        k = ch.weighted([6, 5, 2, 2, 2, 2, 2, 2, 2], "step")
        steps.append(["good", "good", "unknown", "wrongmethod", "raising", "redefine", "pair", "keepalive", "disconnect"][k])
    do_webc = ch.chance(1, 3, "webc")
    violations = []
    log = []
    done = {"flag": False}

    def viol(sig, msg):
        violations.append({"sig": sig, "msg": msg})

    def gen_params():
        n = ch.weighted([2, 3, 3, 2], "nparams")
        ks = list(KEYS)
        out = {}
        for _ in range(n):
            out[ks.pop(ch.draw(len(ks), "pk"))] = ch.pick(VALS, "pv")
        if any(ord(c) > 127 for k, v in out.items() for c in k + v):
            stats["probe_nonascii_param"] += 1
        return out

    def build(method, path, params):
        qs = urllib.parse.urlencode(params, quote_via=urllib.parse.quote if ch.draw(2, "quote") else urllib.parse.quote_plus)
        if method == "GET":
            target = path + ("?" + qs if qs else "")
            return f"GET {target} HTTP/1.1\r\nHost: sim\r\n\r\n".encode()
        body = qs.encode()
        if ch.draw(4, "postquery") == 0:
            # a POST may carry a query string as well: the handler's dictionary is the FORM, nothing else
            stats["probe_post_with_query_string"] += 1
            path = path + "?token=abc&n=query"
        form = ch.weighted([4, 2, 1], "postform")
        if form == 1 and body:
            # a streamed body: Transfer-Encoding: chunked, no Content-Length header (HTTP/1.1 clients that do not know the
            # length in advance send this); the form is the same form
            stats["probe_post_chunked"] += 1
            cut = 1 + ch.draw(len(body), "chunkcut") if len(body) > 1 else 1
            chunks = [body[:cut], body[cut:]] if body[cut:] else [body]
            enc = b"".join(f"{len(c):x}\r\n".encode() + c + b"\r\n" for c in chunks) + b"0\r\n\r\n"
            return (f"POST {path} HTTP/1.1\r\nHost: sim\r\nContent-Type: application/x-www-form-urlencoded\r\n"
                    f"Transfer-Encoding: chunked\r\n\r\n").encode() + enc
        if form == 2 and params and net.frag_mode == 0:
            # (only in runs whose network delivers whole buffers: aiohttp 3's multipart reader fails with "Reading after EOF"
            # when a form arrives in segments of a few bytes - a defect of that library, reproduced on real sockets while
            # building this workload, not a matter of klongpy)
            # the same form as multipart/form-data (what a browser sends for forms with enctype=multipart)
            stats["probe_post_multipart"] += 1
            bd = "simboundary7MA4YWxk"
            parts = b"".join((f"--{bd}\r\nContent-Disposition: form-data; name=\"{k.replace(chr(34), '%22')}\"\r\n\r\n").encode() + v.encode() + b"\r\n"
                             for k, v in params.items())
            if not any(chr(34) in k or "\r" in k or "\n" in k for k in params):
                mbody = parts + f"--{bd}--\r\n".encode()
                return (f"POST {path} HTTP/1.1\r\nHost: sim\r\nContent-Type: multipart/form-data; boundary={bd}\r\n"
                        f"Content-Length: {len(mbody)}\r\n\r\n").encode() + mbody
        return (f"POST {path} HTTP/1.1\r\nHost: sim\r\nContent-Type: application/x-www-form-urlencoded\r\n"
                f"Content-Length: {len(body)}\r\n\r\n").encode() + body

    pending_req = {"raw": None, "routes": None}

    async def read_response(r):
        head = await r.readuntil(b"\r\n\r\n")
        lines = head.split(b"\r\n")
        status = int(lines[0].split()[1])
        n = 0
        for ln in lines[1:]:
            if ln.lower().startswith(b"content-length:"):
                n = int(ln.split(b":")[1])
        body = await r.readexactly(n)
        return status, body.decode("utf-8", "replace")

    async def request(raw, conn=None, keep=False):
        if conn is None:
            conn = await asyncio.open_connection("127.0.0.1", cur["port"])
        r, wr = conn
        wr.write(raw)
        pending_req["raw"], pending_req["routes"] = raw, cur["routes"]
        try:
            res = await read_response(r)
            pending_req["raw"] = None
        except (asyncio.IncompleteReadError, ConnectionError) as e:
            res = ("closed", type(e).__name__)
        if not keep:
            wr.close()
        return res, conn

    def pick_route(method=None, want_raises=None):
        cands = [(m, p, n) for m in ("GET", "POST") for p, n in cur["routes"][m].items()
                 if (method is None or m == method) and (want_raises is None or defs[n]["raises"] == want_raises)]
        if not cands:
            return None
        return cands[ch.draw(len(cands), "route")]

    def expect_good(method, path, name, params):
        d = defs[name]
        hid_now = d["id"] + 100 * d["version"]
        if d["raises"]:
            return hid_now, 400, None
        try:
            text = str(twin[name](dict(params)))
        except Exception as e:   # noqa
            return hid_now, 400, None
        return hid_now, 200, text

    def check_good(tag, method, path, name, params, res, new_entries):
        hid_now, status, text = expect_good(method, path, name, params)
        mine = [e for e in new_entries if e[0] == hid_now and e[1] == params]
        if len(mine) != 1:
            others = [e for e in new_entries if e not in mine]
            if not mine and any(e[0] == hid_now for e in new_entries):
                viol("C20:http:wrong-params", f"{tag} {method} {path} sent {params!r}; handler {name} saw {[e[1] for e in new_entries if e[0] == hid_now]}")
            elif not mine and others:
                viol("C20:http:wrong-handler", f"{tag} {method} {path} -> expected handler id {hid_now}, recorder saw {others[:3]}")
            elif not mine:
                viol("C20:http:handler-not-invoked", f"{tag} {method} {path} {params!r}: no recorder entry; response {res}")
            else:
                viol("C20:http:handler-invoked-more-than-once", f"{tag} {method} {path}: {len(mine)} entries")
        if defs[name]["body"] == "gd" and len(mine) == 1 and status == 200:
            text = snap_by_obj.get(id(mine[0][1]), text)
            if res[0] == 200 and res[1] != text:
                viol("C20:http:body-shows-a-later-amendment-of-the-result", f"{tag} {method} {path}: the handler answered the dictionary gd, which read {text!r} "
                     f"when the handler returned; the body is {res[1]!r} (amended by a later evaluation on the klong loop)")
                return mine
        if res[0] != status:
            viol(f"C20:http:status-{res[0]}-expected-{status}", f"{tag} {method} {path} {params!r} -> {res}")
        elif status == 200 and res[1] != text:
            viol("C20:http:body-differs-from-handler-result", f"{tag} {method} {path} {params!r}: body {res[1]!r}, handler result text {text!r}")
        return mine

    async def on_klong(fn):
        b = srv.on_klongloop(fn)
        while "result" not in b and "exc" not in b:
            await asyncio.sleep(0.001)
        if "exc" in b:
            raise b["exc"]
        return b["result"]

    async def driver():
        for si, kind in enumerate(steps):
            n0 = len(reclog)
            tag = f"step{si}:{kind}"
            if two:
                cur["port"] = PORT2 if ch.draw(2, "which-server") else PORT
                cur["routes"] = tables[cur["port"]]
                tag += f"@{cur['port']}"
                if cur["port"] == PORT2:
                    stats["probe_request_to_second_web_server"] += 1
            if kind == "good":
                rt = pick_route(want_raises=False) or pick_route()
                if rt is None:
                    continue
                m, p, name = rt
                params = gen_params()
                res, _ = await request(build(m, p, params))
                stats["probe_get_ok" if m == "GET" else "probe_post_ok"] += 1
                if defs[name]["raises"]:
                    stats["probe_handler_raised"] += 1
                check_good(tag, m, p, name, params, res, reclog[n0:])
                extra = len(reclog) - n0
                if extra > 1:
                    viol("C20:http:extra-handler-invocations", f"{tag}: {reclog[n0:]}")
                log.append(f"{m} {p} {params} -> {res}")
            elif kind == "raising":
                rt = pick_route(want_raises=True)
                if rt is None:
                    continue
                m, p, name = rt
                params = gen_params()
                res, _ = await request(build(m, p, params))
                stats["probe_handler_raised"] += 1
                check_good(tag, m, p, name, params, res, reclog[n0:])
                log.append(f"{m} {p} (raising) -> {res}")
            elif kind == "unknown":
                m = ch.pick(["GET", "POST"], "um")
                p = ch.pick(["/nope", "/a/zz", "/ab/c", "/A", "/t", "/a/d", "/a/", "/p/"], "up")
                if p in cur["routes"][m]:
                    continue
                res, _ = await request(build(m, p, gen_params()))
                stats["probe_unknown_path"] += 1
                if len(reclog) != n0:
                    viol("C20:http:unregistered-path-reached-a-handler", f"{tag} {m} {p}: {reclog[n0:]}")
                if res[0] == 200:
                    viol("C20:http:unregistered-path-answered-200", f"{tag} {m} {p} -> {res}")
                log.append(f"{m} {p} (unknown) -> {res}")
            elif kind == "wrongmethod":
                rt = pick_route()
                if rt is None:
                    continue
                m, p, name = rt
                other = "POST" if m == "GET" else "GET"
                if p in cur["routes"][other]:
                    continue
                res, _ = await request(build(other, p, gen_params()))
                stats["probe_wrong_method"] += 1
                if len(reclog) != n0:
                    viol("C20:http:wrong-method-reached-a-handler", f"{tag} {other} {p}: {reclog[n0:]}")
                log.append(f"{other} {p} (wrong method) -> {res}")
            elif kind == "redefine":
                name = ch.pick(sorted(defs), "redef")
                if ch.draw(3, "via_nonfn") == 0:
                    # the name holds a plain value for a while (a script being reloaded) and a request arrives inside
                    # that window.  What that one request gets is not stated by the property and is not judged (beyond
                    # "at most one invocation"); the requests after the next definition must use that definition.
                    await on_klong(lambda name=name: srv.klong(f"{name}::0"))
                    stats["probe_handler_rebound_to_non_function"] += 1
                    mine = [(m, p) for m in ("GET", "POST") for p, n in cur["routes"][m].items() if n == name]
                    if mine:
                        m, p = mine[ch.draw(len(mine), "nfroute")]
                        res, _ = await request(build(m, p, gen_params()))
                        stats["probe_request_while_handler_is_not_a_function"] += 1
                        if len(reclog) - n0 > 1:
                            viol("C20:http:extra-handler-invocations", f"{tag}: {reclog[n0:]}")
                        log.append(f"{m} {p} while {name}::0 -> {res}")
                defs[name]["version"] += 1
                body, raises = ch.pick(BODIES, "newbody")
                defs[name]["body"], defs[name]["raises"] = body, raises
                src = hsrc(name)
                twin(src)
                await on_klong(lambda src=src: srv.klong(src))
                stats["probe_redefined"] += 1
                log.append(f"redefine {src}")
            elif kind == "pair":
                rts = [pick_route(), pick_route()]
                if None in rts:
                    continue
                ps = [gen_params(), gen_params()]
                raws = [build(rt[0], rt[1], p) for rt, p in zip(rts, ps)]
                results = await asyncio.gather(request(raws[0]), request(raws[1]))
                stats["probe_concurrent_pair"] += 1
                new = reclog[n0:]
                same = rts[0] == rts[1] and ps[0] == ps[1]
                for j, ((m, p, name), params, (res, _)) in enumerate(zip(rts, ps, results)):
                    if same:
                        # two identical requests: two identical entries are expected; judge one of them per request
                        hid_now = defs[name]["id"] + 100 * defs[name]["version"]
                        view = [e for e in new if e == (hid_now, params)][j:j + 1] + [e for e in new if e != (hid_now, params)]
                    else:
                        view = new
                    check_good(tag, m, p, name, params, res, view)
                if len(new) != 2:
                    viol("C20:http:pair-invocation-count", f"{tag}: two concurrent requests produced {len(new)} handler invocations: {new}")
                log.append(f"pair {[(rt[0], rt[1]) for rt in rts]} -> {[r[0] for r in results]}")
            elif kind == "keepalive":
                rt1, rt2 = pick_route(), pick_route()
                if rt1 is None or rt2 is None:
                    continue
                p1, p2 = gen_params(), gen_params()
                res1, conn = await request(build(rt1[0], rt1[1], p1), keep=True)
                n1 = len(reclog)
                check_good(tag + "/1", rt1[0], rt1[1], rt1[2], p1, res1, reclog[n0:n1])
                if res1[0] != "closed":
                    res2, _ = await request(build(rt2[0], rt2[1], p2), conn=conn)
                    check_good(tag + "/2", rt2[0], rt2[1], rt2[2], p2, res2, reclog[n1:])
                    stats["probe_keepalive_reuse"] += 1
                    log.append(f"keepalive {rt1[:2]} {rt2[:2]} -> {res1[0]} {res2[0]}")
            elif kind == "disconnect":
                rt = pick_route()
                if rt is None:
                    continue
                m, p, name = rt
                params = gen_params() or {"a": "1"}
                raw = build(m, p, params)
                cut = 1 + ch.draw(len(raw) - 1, "cut")
                r, wr = await asyncio.open_connection("127.0.0.1", cur["port"])
                wr.write(raw[:cut])
                await asyncio.sleep(0.01 * ch.draw(3, "linger"))
                if ch.draw(2, "abort"):
                    wr.transport.abort()
                else:
                    wr.close()
                await asyncio.sleep(0.05)
                stats["probe_disconnect_mid_request"] += 1
                if len(reclog) != n0:
                    viol("C20:http:incomplete-request-reached-a-handler", f"{tag} {m} {p}: request cut at byte {cut}/{len(raw)} but recorder saw {reclog[n0:]}")
                log.append(f"disconnect {m} {p} at {cut}/{len(raw)}")
        if do_webc:
            stats["probe_webc"] += 1
            closed_port, hname = (PORT2, "wh2") if two and ch.draw(2, "webc-which") else (PORT, "wh")
            cur["port"], cur["routes"] = closed_port, tables[closed_port]
            try:
                rcode = await on_klong(lambda: srv.klong(f".webc({hname})"))
            except Exception as e:   # noqa
                # a .webc that raises is judged by what it leaves behind: the port must not answer any more
                rcode = f"raised {type(e).__name__}"
                stats["probe_webc_raised"] += 1
            log.append(f".webc({hname}) -> {rcode}")
            if not isinstance(rcode, str) and rcode != 1:
                viol("C20:http:webc-returns-0-for-live-server", f".webc({hname}) returned {rcode!r} for a running server")
            if two:
                # the other server of the same process goes on serving its own table
                other_port = PORT if closed_port == PORT2 else PORT2
                cur["port"], cur["routes"] = other_port, tables[other_port]
                rt = pick_route(want_raises=False)
                if rt is not None:
                    n1 = len(reclog)
                    params = gen_params()
                    try:
                        res, _ = await request(build(rt[0], rt[1], params))
                    except ConnectionError as e:
                        res = ("refused", type(e).__name__)
                    stats["probe_other_web_server_after_webc"] += 1
                    check_good("after-webc-of-the-other-server", rt[0], rt[1], rt[2], params, res, reclog[n1:])
                cur["port"], cur["routes"] = closed_port, tables[closed_port]
            try:
                conn = await asyncio.open_connection("127.0.0.1", closed_port)
                rt = pick_route(want_raises=False)
                answered = None
                if rt is not None:
                    try:
                        answered, _ = await request(build(rt[0], rt[1], {}), conn=conn)
                    except Exception as e:   # noqa
                        answered = ("error", type(e).__name__)
                else:
                    conn[1].close()
                viol("C20:http:port-still-answers-after-webc", f"connect after .webc succeeded; request -> {answered}")
            except ConnectionRefusedError:
                pass
        done["flag"] = True

    task_box = {}

    def start():
        task_box["t"] = asyncio.ensure_future(driver(), loop=H)
    H.call_soon_threadsafe(start)
    if bg:
        srv.on_klongloop(lambda: srv.klong("bgf::{[a];a::x*2;gd,x,,bgnext(0);bgy(0);a+x}"))

        bg_gap = ch.draw(2, "bg-gap")

        def bgjob(n):
            if done["flag"] or n <= 0:
                return
            arg = 7 + (n % 5)
            try:
                r = srv.klong(f"bgf({arg})")
                bgres.append((arg, "ok", int(r) if hasattr(r, "__int__") else repr(r)))
            except SystemExit:
                raise
            except BaseException as e:   # noqa
                bgres.append((arg, "exc", f"{type(e).__name__}: {str(e)[:60]}"))
            stats["probe_klongloop_evaluation_beside_requests"] += 1
            # the next evaluation is either due at once (the klong loop has a backlog) or a little later
            srv.klongloop.call_later(0.0005 if bg_gap else 0, bgjob, n - 1)
        srv.klongloop.call_soon_threadsafe(bgjob, 60)
    reason = w.run(until=lambda: done["flag"] or (task_box.get("t") is not None and task_box["t"].done()), max_steps=60000, max_time=600.0)
    t = task_box.get("t")
    if t is not None and t.done() and t.exception() is not None:
        e = t.exception()
        import traceback
        tb = "".join(traceback.format_exception(type(e), e, e.__traceback__))[-600:]
        raise HarnessError(f"http driver crashed: {tb}")
    for arg, kind, val in bgres:
        if kind != "ok" or val != 3 * arg:
            viol("C20:http:klongloop-evaluation-disturbed-by-a-request", f"bgf::{{[a];a::x*2;bgy(0);a+x}}; bgf({arg}) evaluated on the klong loop while requests "
                 f"were being served gave {kind} {val!r}, expected {3 * arg}")
            break
    if not done["flag"]:
        raw = pending_req["raw"]
        hname = None
        if raw:
            meth, target = raw.split(b" ", 2)[:2]
            hname = pending_req["routes"].get(meth.decode(), {}).get(target.decode("latin1").split("?")[0])
        if hname is not None and defs[hname]["body"] == ".x(3)":
            viol("C20:http:request-never-answered:handler-left-through-an-exit", f"{raw[:40]!r}: the handler {hname}::{{...;.x(3)}} fails by leaving its evaluation "
                 f"through an exit; the request is never answered (no 400) and the server stops serving ({reason}; {w.steps} steps, t={w.now})")
        else:
            viol(f"C20:http:no-progress:{reason}", f"driver stuck after {log[-2:]} ({w.steps} steps, t={w.now}); request in flight: {raw[:60] if raw else None!r}")
    frag = stats.get("net_fragments", 0) > 0
    nontrivial = len(steps) >= 2 and (frag or any(s in ("raising", "disconnect", "unknown", "wrongmethod") for s in steps))
    sample = {"mode": "http", "routes": routes, "handlers": {n: d["body"] for n, d in defs.items()}, "steps": steps, "log": log[:20], "webc": do_webc}
    out = {"violations": violations, "stats": dict(stats), "digest": w.digest() + w.sched_digest(), "sched": w.sched_digest(),
           "sim_time": w.now, "steps": w.steps, "nontrivial": nontrivial, "sample": sample, "tail": list(w.tail)}
    w.shutdown()
    return out


# --------------------------------------------------------------------------- websocket
JSON_VALUES = [1, 0, -7, 2.5, 0.0, "s", "", "é x", True, False, None, [], [1, 2, 3], [1.5, 2.5], ["a", "b"], [3, 4.5, "x"], [[1, 2], [3, 4]],
               [1, [2, "y"]], {"a": 1}, {"k": [1, 2], "s": "v"}, {},
               "L" * 70000, list(range(30000))]      # two messages well above 64 KiB (a 70 kB text, a ~170 kB list)
SEND_LITS = [("[1 2 3]", [1, 2, 3]), ('"hi"', "hi"), (':{["a" 1]}', {"a": 1}), ("42", 42), ("2.5", 2.5), ('["x" "y"]', ["x", "y"]),
             ("[[1 2] [3 4]]", [[1, 2], [3, 4]]), ('""', ""), ("1+1", 2), ("-7", -7), ("[5 6]@1", 6), ("2*3.5", 7.0),     # incl. computed numbers
             (":{[1 2]}", {"1": 2}), (":{},(1+1),5", {"2": 5}),
             (':{["zero" 0] [1 "one"]}', {"zero": 0, "1": "one"}), (':{[2 "two"] ["k" [1 2]]}', {"2": "two", "k": [1, 2]})]     # numeric dictionary keys (JSON object keys are their text), literal and computed


def scenario_ws(ch, cfg):
    import websockets
    import klongpy.ws.sys_fn_ws as ws
    w = World(ch, max_steps=60000)
    net = SimNet(w)
    stats = w.stats
    ws.threading = ThreadingShim(w)
    cl = Node(w, net, "C", modules=["klongpy.ws"])
    P = SimLoop(w, "P", net)
    P.start()
    got = []
    conns = []
    state = {"closed_by_peer": False}

    async def handler(sock):
        conns.append(sock)
        try:
            async for m in sock:
                got.append(m)
        except Exception:   # noqa
            pass

    async def boot():
        await websockets.serve(handler, "127.0.0.1", WSPORT)
    P.call_soon_threadsafe(lambda: asyncio.ensure_future(boot(), loop=P))
    w.run(until=lambda: WSPORT in net.listeners, max_steps=5000)
    reclog = []

    ncs = {}
    reclog2 = []
    hbad = []
    two = ch.draw(2, "twoconns") == 1
    amending = ch.draw(2, "amending") == 1
    binary_frames = ch.draw(3, "binary_frames") == 0

    def wsrec(x, y, z):
        """x: the connection the message arrived on, y: the message, z: the value of .ws.h inside the handler"""
        w.yield_point("ws.handler")        # a handler takes a while: the other loops and threads run meanwhile
        which = 0 if x is ncs.get(0) else (1 if x is ncs.get(1) else None)
        if z is not x:
            hbad.append(f"message {y!r:.30} arrived on connection {which} but .ws.h was {'connection ' + str(0 if z is ncs.get(0) else 1 if z is ncs.get(1) else '?')}")
        import copy as _copy
        y = _copy.deepcopy(y)              # the value as it arrived (the handler may go on to amend the message it was given)
        if which == 0:
            reclog.append(y)
        elif which == 1:
            reclog2.append(y)
        else:
            hbad.append(f"message {y!r:.30} handed over with an unknown connection object")
        return 1
    cl.klong["wsrec"] = wsrec
    violations = []

    def viol(sig, msg):
        violations.append({"sig": sig, "msg": msg})

    def client_boot():
        k = cl.klong
        from klongpy.core import KGSym
        if amending:
            # a handler that stamps the message it received (a dictionary is amended in place): its own copy, nobody else's
            stats["probe_ws_handler_amends_its_message"] += 1
            k('.ws.m::{[a];a::x;wsrec(x;y;.ws.h);y,"seen",,1;1}')
        else:
            k(".ws.m::{[a];a::x;wsrec(x;y;.ws.h)}")
        k(f'c::.ws("ws://127.0.0.1:{WSPORT}")')
        ncs[0] = k._context[KGSym("c")]
        if two:
            k(f'c2::.ws("ws://127.0.0.1:{WSPORT}")')
            ncs[1] = k._context[KGSym("c2")]
            stats["probe_ws_two_connections"] += 1
    a = w.spawn("client", client_boot)
    r = w.run(until=lambda: a.done, max_steps=20000, max_time=100.0)
    if not a.done:
        viol("C20:ws:connect-hangs", f".ws() never returned ({r}) blocked at {a.desc}")
    elif a.exc is not None:
        raise HarnessError(f"ws client boot failed: {a.exc!r}")
    w.run(until=lambda: len(conns) >= (2 if two else 1), max_steps=5000, max_time=w.now + 50.0)
    if not violations and len(conns) < (2 if two else 1):
        viol("C20:ws:no-connection", f"client returned but the peer saw {len(conns)} connection(s)")
    pushed = []
    pushed2 = []
    sent = []
    log = []
    if not violations:
        sock = conns[0]
        nmsg = 1 + ch.draw(8, "nmsg")
        msgs = [ch.pick(JSON_VALUES, "json") for _ in range(nmsg)]
        if ch.draw(3, "repeat") == 0:
            # the same text more than once (a feed that repeats itself): every arrival is a message of its own
            objs = [m for m in JSON_VALUES if isinstance(m, dict) and m]
            rep = ch.pick(objs, "repeat.obj")
            msgs = msgs + [rep] * (2 + ch.draw(2, "repeat.n"))
            nmsg = len(msgs)
            stats["probe_ws_same_text_repeated"] += 1
        close_after = ch.draw(nmsg + 1, "closeafter") if ch.chance(1, 3, "peerclose") else None
        nsend = ch.draw(4, "nsend")
        sends = [ch.pick(SEND_LITS, "sendlit") for _ in range(nsend)]
        if nsend >= 2 and ch.draw(3, "mutdict") == 0:
            # the same dictionary, amended in place between the sends, in ONE program: every send must carry the
            # value as it was when c(st) was evaluated
            sends = [(f'st:::{{["n" 0]}};' + ";".join(f'st,"n",,{i + 1};c(st)' for i in range(nsend)), [{"n": i + 1} for i in range(nsend)])]
            stats["probe_ws_send_mutated_dict"] += 1
        flag = {"pushed": False}

        async def push():
            for i, m in enumerate(msgs):
                if close_after is not None and i == close_after:
                    state["closed_by_peer"] = True
                    stats["probe_ws_peer_close"] += 1
                    await sock.close()
                    break
                if binary_frames and ch.draw(2, "binframe"):
                    # the same JSON text in a binary frame (peers written in other languages often send bytes): a message all the same
                    stats["probe_ws_binary_frame"] += 1
                    await sock.send(json.dumps(m).encode("utf-8"))
                else:
                    await sock.send(json.dumps(m))
                pushed.append(m)
                stats["probe_ws_pushed"] += 1
                if isinstance(m, list) and len({type(x) for x in m}) > 1:
                    stats["probe_ws_mixed_list"] += 1
                if isinstance(m, dict):
                    stats["probe_ws_object"] += 1
                if ch.draw(2, "pushyield"):
                    await asyncio.sleep(0)
            flag["pushed"] = True
        P.call_soon_threadsafe(lambda: asyncio.ensure_future(push(), loop=P))
        flag2 = {"pushed": not two}
        if two:
            msgs2 = [f"b{i}" for i in range(1 + ch.draw(4, "nmsg2"))]

            async def push2():
                for m in msgs2:
                    await conns[1].send(json.dumps(m))
                    pushed2.append(m)
                    if ch.draw(2, "push2yield"):
                        await asyncio.sleep(0)
                flag2["pushed"] = True
            P.call_soon_threadsafe(lambda: asyncio.ensure_future(push2(), loop=P))

        def sender():
            for lit, val in sends:
                if state["closed_by_peer"]:
                    break
                # issued on the klongloop, as the CLI issues REPL lines: evaluation on one interpreter is serialised
                # there (the interpreter is not thread-safe; handlers run on the same loop)
                src = lit if isinstance(val, list) and lit.startswith("st:::") else f"c({lit})"
                box = cl.on_klongloop(lambda src=src: cl.klong(src))
                w.block_until(lambda: "result" in box or "exc" in box, "send.wait")
                if "exc" in box:
                    log.append(f"send raised {type(box['exc']).__name__}")
                    break
                if src is lit:
                    sent.extend(val)
                else:
                    sent.append(val)
                stats["probe_ws_sent"] += 1
        s = w.spawn("sender", sender)
        # all pushed messages must be dispatched; bounded by virtual time (keep-alive timers never let the world go quiescent)
        w.run(until=lambda: flag["pushed"] and flag2["pushed"] and s.done and len(reclog) >= len(pushed) and len(reclog2) >= len(pushed2)
              and len(got) >= len(sent), max_steps=40000, max_time=w.now + 30.0)
        w.run(max_steps=3000, max_time=w.now + 2.0)      # grace period: duplicates / late deliveries would show up here
        if not s.done:
            viol("C20:ws:send-hangs", f"c(v) blocked at {s.desc}")
        # ---- oracle: one recorder entry per delivered message, in arrival order, value == JSON value
        dec = []
        for v in reclog:
            try:
                dec.append(json.loads(ws.encode_message(v)))
            except Exception as e:   # noqa
                dec.append(("unencodable", repr(v)[:40]))
        if None in pushed and len(dec) < len(pushed):
            nn = [p for p in pushed if p is not None]
            if dec == nn[:len(dec)] and (len(dec) == len(nn) or state["closed_by_peer"]):
                # root cause signature: exactly the null messages are missing, everything else is in place
                viol("C20:ws:null-message-not-delivered", f"pushed {json.dumps(pushed)}; .ws.m was invoked for {json.dumps(dec)} - the JSON null message(s) never reached the handler")
                pushed = nn
        if len(dec) > len(pushed):
            viol("C20:ws:more-deliveries-than-messages", f"pushed {pushed} handler saw {dec}")
        elif len(dec) < len(pushed):
            missing = pushed[len(dec)] if dec == pushed[:len(dec)] else None
            # a graceful close by the peer comes AFTER the messages it sent: they have arrived and must all be handed over
            viol(f"C20:ws:message-not-delivered:{'null' if missing is None and dec == pushed[:len(dec)] else ('before-peer-close' if state['closed_by_peer'] else 'other')}",
                 f"pushed {pushed}{' then closed the connection' if state['closed_by_peer'] else ''}; handler saw only {dec}")
        else:
            for i, (p, d) in enumerate(zip(pushed, dec)):
                if p != d or type(p) is not type(d) and not (isinstance(p, (int, float)) and isinstance(d, (int, float)) and not isinstance(p, bool) and not isinstance(d, bool)):
                    kind = "mixed-list" if isinstance(p, list) and len({type(x) for x in p}) > 1 else type(p).__name__
                    viol(f"C20:ws:value-differs:{kind}", f"message #{i} {json.dumps(p)} reached .ws.m as {reclog[i]!r} (re-encodes to {json.dumps(d)})")
                    break
        if hbad:
            viol("C20:ws:wrong-connection-handle", f"{hbad[0]} ({len(hbad)} such event(s))")
        if two and reclog2 != pushed2:
            viol("C20:ws:second-connection-messages", f"second connection: pushed {pushed2}; its handler invocations saw {reclog2!r:.120}")
        gdec = [json.loads(g) for g in got]
        if gdec != sent[:len(gdec)] or (len(gdec) < len(sent) and not state["closed_by_peer"]):
            viol("C20:ws:sent-value-not-its-json", f"sent {sent}; peer received {got}")
        log.append(f"pushed {pushed} -> {dec}; sent {sent} -> {gdec}")
    nontrivial = len(pushed) + len(sent) >= 2 and (stats.get("net_fragments", 0) > 0 or state["closed_by_peer"])
    sample = {"mode": "ws", "pushed": pushed, "handler_saw": [repr(v)[:40] for v in reclog], "sent": sent, "peer_got": got, "peer_closed": state["closed_by_peer"]}
    out = {"violations": violations, "stats": dict(stats), "digest": w.digest() + w.sched_digest(), "sched": w.sched_digest(),
           "sim_time": w.now, "steps": w.steps, "nontrivial": nontrivial, "sample": sample, "tail": list(w.tail)}
    w.shutdown()
    return out
