"""C03 - application, projection, locals, conditionals; scopes survive failed calls.

Tick-fault harness.  Every leaf and every call result of a generated program is wrapped in the
identity tick t(id;v) (a Python callable installed through the public API).  The reference run
records, at every tick, the context depth and a deep copy of the global scope.  Then the
program is made to fail at tick k for EVERY k (two exception classes; also as the last of up
to three consecutive failing programs) and the interpreter must be left exactly as the
reference run had it at tick k: same depth, same globals, no parameter or local visible, and
a probe battery (the program again without fault, every global, every function) must behave
exactly as on a twin interpreter built fresh from the reference state.
Configuration 'subst' (fault-free): every call form (direct, through a variable, @, each,
over, projections of arity 2 and 3 filled in one or several steps in every hole order) must
equal the body evaluated with x,y,z replaced by the evaluated arguments; only the selected
branch of a conditional is evaluated; every argument is evaluated exactly once.
"""
import copy
import itertools

from sim.canon import canon
from sim.world import HarnessError

PROPERTY = "C03"
LEVEL = "fault_enumeration"
RULE = ("(faults) each case = a seeded program over three mutually calling functions (arity 1-3, optional locals, deliberate global "
        "assignments, conditionals with truthy/falsy conditions, calls direct / through an alias variable / through @ / through a "
        "projection / recursive through .f, up to three nested calls); the failing tick k is enumerated over ALL N ticks x 2 "
        "exception classes, plus chains of up to three consecutive failing programs; evaluations = faulted runs judged; "
        "non-trivial = the fault fired inside a nested call (depth >= 1).  (subst) each case = one function body x argument tuple x "
        "ALL call forms and ALL projection hole patterns / fill orders; distinct = (body, form) pairs; plus fixed histories: "
        "recursion through .f (with locals, two functions nested, parameter-less functions), over with matrix rows, a projection "
        "variable as verb of each, the same call after a global was reassigned; (faults) 1 case in 3 ends with 400 failing calls "
        "three deep on one interpreter before the probes")
EXHAUSTIVE_NOTE = "fault position enumerated exhaustively per program; projection hole patterns and fill orders enumerated exhaustively per function; programs sampled"
ASSUMPTIONS = [
    "only state reachable through the public API is compared (globals, results of further programs, context depth)",
    "assignments completed before the fault are part of the expected state (taken from the reference run at the same tick)",
    "compile_expr is used as shipped (same setting for the interpreter under test and its twin)",
]
REAL_STUB = {
    "real": ["KlongInterpreter (parser, eval, _eval_fn, _resolve_fn, KlongContext push/pop, merge_projections, KGCond)"],
    "stub": ["failure of a call: an identity tick callable that raises at its k-th invocation"],
}
EXPECTED_PROBES = ["probe_subst_infix", "probe_fault_depth_1", "probe_fault_depth_2", "probe_fault_depth_3", "probe_fault_after_global_assignment", "probe_chain_of_failures",
                   "probe_natural_fault_undefined_fn", "probe_cond_false_branch", "probe_cond_true_branch", "probe_projection_call", "probe_recursion",
                   "probe_subst_projection_patterns", "probe_subst_each", "probe_subst_over", "probe_subst_at",
                   "probe_nested_recursions", "probe_nilad_calls", "probe_subst_over_matrix", "probe_subst_after_global_reassigned",
                   "probe_subst_projection_as_each_verb", "probe_long_history_of_failed_calls", "probe_tail_recursion_with_locals",
                   "probe_projection_of_recursive_function", "probe_projection_with_variable_argument_as_verb"]
WALL_CAP = {"quick": 400, "thorough": 3600}


def setup_worker():
    import klongpy  # noqa


def plan(tier):
    if tier == "quick":
        return [("faults", {"mode": "faults"}, 192, 4), ("subst", {"mode": "subst"}, 320, 8)]
    return [("faults", {"mode": "faults"}, 40000, 50), ("subst", {"mode": "subst"}, 20000, 50)]


class TickBudget(Exception):
    """Generated programs are finite by construction; running away means evaluation went wrong."""


class Tick:
    """The tick callable t(id;v): identity, recorder and fault injector."""

    def __init__(self):
        self.klong = None
        self.n = 0
        self.fail_at = None
        self.exc_class = None
        self.log = []
        self.record = False
        self.snaps = []

    def reset(self, fail_at=None, exc_class=None, record=False):
        self.n = 0
        self.fail_at = fail_at
        self.exc_class = exc_class
        self.log = []
        self.record = record
        self.snaps = []

    def __call__(self, x, y):
        self.n += 1
        if self.n > 3000:
            raise TickBudget("more than 3000 ticks in one program")
        self.log.append(int(x))
        if self.record:
            ctx = self.klong._context
            depth = len(ctx._context)
            g = ctx._context[-(ctx._min_ctx_count + 1)]
            self.snaps.append((depth, {str(k): _copy(v) for k, v in g.items() if str(k) != "t"}))
        if self.fail_at is not None and self.n == self.fail_at:
            raise self.exc_class(f"scripted failure at tick {self.n}")
        return y


def _copy(v):
    try:
        return copy.deepcopy(v)
    except Exception:
        return v


def _globals(klong):
    ctx = klong._context
    g = ctx._context[-(ctx._min_ctx_count + 1)]
    return {str(k): canon(v) for k, v in g.items() if str(k) != "t"}


def _depth(klong):
    return len(klong._context._context)


TRUTHY = ["1", '"a"', "[0]", "7", "[1 2]", "0.5", "[[]]", "[[] []]", '[""]']
FALSY = ["0", "[]", '""', "0.0"]


class Gen:
    """Program generator.  Functions f1,f2,f3: fi may call fj only for j>i (<= 3 nested calls)."""

    def __init__(self, ch):
        self.ch = ch
        self.tid = 0
        self.arity = {}
        self.never = set()       # tick ids inside branches that a literal condition can never select
        self.nconds = 0

    def T(self, e):
        self.tid += 1
        return f"t({self.tid};{e})"

    def leaf(self, level, ar, locs):
        ch = self.ch
        opts = ["lit", "glob"] + ["x", "y", "z"][:ar] + (["loc"] if locs else [])
        k = ch.pick(opts, "leaf")
        if k == "lit":
            return self.T(str(ch.draw(9, "lit")))
        if k == "glob":
            return self.T(ch.pick(["g1", "g2"], "glob"))
        if k == "loc":
            return self.T(ch.pick(locs, "loc"))
        return self.T(k)

    def expr(self, level, ar, locs, depth=0):
        ch = self.ch
        w = [4, 3 if depth < 2 else 0, 2 if depth < 2 else 0, (3 if level < 3 else 0) if depth < 2 else 0, 1 if depth < 1 else 0]
        k = ch.weighted(w, "expr")
        if k == 0:
            return self.leaf(level, ar, locs)
        if k == 1:
            op = ch.pick(["+", "-", "*"], "op")
            a = self.expr(level, ar, locs, depth + 1)
            b = self.expr(level, ar, locs, depth + 1)
            return self.T(f"({a}){op}({b})")
        if k == 2:
            c = ch.pick(TRUTHY + FALSY, "cond")
            ct = self.T(c)
            t0 = self.tid
            a = self.expr(level, ar, locs, depth + 1)
            t1 = self.tid
            b = self.expr(level, ar, locs, depth + 1)
            t2 = self.tid
            # the condition is a literal: the unselected branch may never be evaluated, anywhere
            dead = range(t1 + 1, t2 + 1) if c in TRUTHY else range(t0 + 1, t1 + 1)
            self.never.update(dead)
            self.nconds += 1
            return f":[{ct};{a};{b}]"
        if k == 3:
            return self.call(level, ar, locs, depth)
        return f"gr({self.T(str(ch.draw(3, 'rec')))})"

    def call(self, level, ar, locs, depth):
        ch = self.ch
        j = level + 1 + ch.draw(3 - level, "callee")
        n = self.arity[j]
        args = [self.expr(level, ar, locs, depth + 1) if ch.draw(3, "argkind") == 0 else self.leaf(level, ar, locs) for _ in range(n)]
        form = ch.pick(["direct", "direct", "alias", "at", "proj"], "callform")
        if form == "at" and n == 1:
            return self.T(f"f{j}@({args[0]})")
        if form == "alias":
            return self.T(f"a{j}({';'.join(args)})")
        if form == "proj" and n >= 2:
            # pj = fj with the first argument left open and the others pre-filled by global constants
            return self.T(f"p{j}({args[0]})")
        return self.T(f"f{j}({';'.join(args)})")

    def body(self, level):
        ch = self.ch
        ar = self.arity[level]
        nloc = ch.weighted([3, 2, 1], "nloc")
        locs = ["la", "lb"][:nloc]
        stmts = []
        assigned = []
        for _ in range(ch.draw(2, "nstmt")):
            k = ch.weighted([2, 2, 2], "stmt")
            if k == 0 and locs:
                v = ch.pick(locs, "lassign")
                stmts.append(f"{v}::{self.expr(level, ar, assigned)}")
                if v not in assigned:
                    assigned.append(v)
            elif k == 1:
                stmts.append(f"{ch.pick(['g1', 'g2'], 'gassign')}::{self.expr(level, ar, assigned)}")
            else:
                stmts.append(self.expr(level, ar, assigned))
        stmts.append(self.expr(level, ar, assigned))
        # both spellings of a local declaration: [a b] and [a;b]
        head = (f"[{(';' if ch.draw(2, 'locsep') else ' ').join(locs)}];") if locs else ""
        return "{" + head + ";".join(stmts) + "}"

    def program(self):
        ch = self.ch
        for i in (1, 2, 3):
            self.arity[i] = 1 + ch.draw(3, "arity")
        # la / lb also exist as globals: a function's declared locals of the same name must shadow, never touch them
        defs = ["g1::10", "g2::3", "g3::[1 2 3]", "la::77", "lb::88"]
        bodies = {}
        for i in (3, 2, 1):
            bodies[i] = self.body(i)
        # recursion through .f with a tick in every round
        rec = "{:[" + self.T("x") + "<1;" + self.T("0") + ";" + self.T("x") + "+.f(x-1)]}"
        defs.append(f"gr::{rec}")
        for i in (3, 2, 1):
            defs.append(f"f{i}::{bodies[i]}")
        for i in (2, 3):
            defs.append(f"a{i}::f{i}")
            n = self.arity[i]
            if n >= 2:
                defs.append(f"p{i}::f{i}(" + ";".join([""] + ["2", "5"][:n - 1]) + ")")
        n1 = self.arity[1]
        main_args = [self.T(str(1 + ch.draw(5, "marg"))) for _ in range(n1)]
        main = f"f1({';'.join(main_args)})"
        if ch.draw(3, "mainassign") == 0:
            main = f"g2::{main}"
        return defs, main


def _mk(defs, tick, globs=None):
    from klongpy import KlongInterpreter
    k = KlongInterpreter()
    tick.klong = k
    k["t"] = tick
    for line in defs:
        k(line)
    if globs is not None:
        ctx = k._context
        g = ctx._context[-(ctx._min_ctx_count + 1)]
        from klongpy.core import KGSym
        # restore the global scope exactly: values recorded by the reference run (functions keep their definitions)
        for name, val in globs.items():
            g[KGSym(name)] = _copy(val)
        for name in [str(s) for s in list(g.keys())]:
            if name not in globs and name != "t":
                del g[KGSym(name)]
        k._compiled_cache.clear()
    return k


def _run(k, src):
    try:
        return ("ok", canon(k(src)))
    except BaseException as e:   # noqa
        if isinstance(e, (SystemExit, KeyboardInterrupt)):
            raise
        return ("exc", type(e).__name__)


def scenario(ch, cfg):
    if cfg["mode"] == "subst":
        return scenario_subst(ch, cfg)
    from klongpy.core import KlongException
    stats = {}

    def bump(k, n=1):
        stats[k] = stats.get(k, 0) + n
    gen = Gen(ch)
    defs, main = gen.program()
    bodies_txt = " ".join(d for d in defs if d[:2] in ("f1", "f2", "f3"))
    if "gr(" in bodies_txt:
        bump("probe_recursion")
    if "p2(" in bodies_txt or "p3(" in bodies_txt:
        bump("probe_projection_call")
    violations = []
    evaluations = 0
    nontrivial_keys = []

    def viol(sig, msg):
        if not any(v["sig"] == sig for v in violations) and len(violations) < 6:
            violations.append({"sig": sig, "msg": msg})

    probes = [main, "g1", "g2", "g3", "x", "y", "z", "la", "lb", ".f", "f1", "f2", "f3", "gr(2)"] + \
             [f"f{i}({';'.join(str(3 + j) for j in range(gen.arity[i]))})" for i in (1, 2, 3)]

    def battery(k, tick):
        out = []
        for p in probes:
            tick.reset()
            out.append((p, _run(k, p), tuple(tick.log)))
        out.append(("globals", tuple(sorted(_globals(k).items())), ()))
        out.append(("depth", _depth(k), ()))
        return out

    # ---- reference run from the initial state
    tick = Tick()
    R = _mk(defs, tick)
    base_depth = _depth(R)
    tick.reset(record=True)
    ref = _run(R, main)
    snaps = tick.snaps
    N = len(snaps)
    if N == 0:
        raise HarnessError("program without ticks")
    if ref == ("exc", "TickBudget") or ref == ("exc", "RecursionError"):
        viol("C03:runaway-evaluation", f"{main}: the fault-free run of a finite program did not terminate ({ref[1]}, {len(tick.log)} ticks); defs {defs[5:9]}")
    dead = sorted(set(tick.log) & gen.never)
    if dead:
        viol("C03:unselected-branch-evaluated", f"{main}: ticks {dead[:6]} sit in branches that a literal condition never selects, yet they were evaluated; defs {defs[5:9]}")
    gfin = _globals(R)
    if gfin.get("la") != ("i", 77) or gfin.get("lb") != ("i", 88):
        viol("C03:local-assignment-clobbers-global", f"{main}: the globals la/lb (77/88) are only ever shadowed by declared locals, yet they are now "
             f"{gfin.get('la')} / {gfin.get('lb')}; defs {defs[5:9]}")
    if gen.nconds:
        bump("probe_cond_true_branch")
        bump("probe_cond_false_branch")
    if violations:
        N = 0
    if N > 120:
        N = 120
    exc_classes = [KlongException, RuntimeError]
    # chains: up to three consecutive failing programs before the clean probes
    chain_len = 1 + ch.weighted([3, 1, 1], "chain")
    chain_ks = [1 + ch.draw(N, f"chain_k{i}") for i in range(chain_len - 1)]

    def one_fault(k_fail, exc_class, prefix, long_history=False):
        """prefix: list of earlier failing ticks (chain).  Returns nothing; records violations."""
        nonlocal evaluations
        t_a = Tick()
        A = _mk(defs, t_a)
        expected_globs = None
        # replay the chain: each step fails at its tick; the reference state for the next step is the snapshot at that tick
        state = None
        for kf in prefix + [k_fail]:
            # reference for this step, from the current expected state (the initial reference run is reused)
            if state is None:
                step_snaps = snaps
            else:
                t_r2 = Tick()
                R2 = _mk(defs, t_r2, globs=state)
                t_r2.reset(record=True)
                _run(R2, main)
                step_snaps = t_r2.snaps
            if kf > len(step_snaps):
                kf = len(step_snaps)
            if kf < 1:
                return
            depth_at, state = step_snaps[kf - 1]
            t_a.reset(fail_at=kf, exc_class=exc_class)
            d0 = _depth(A)
            r = _run(A, main)
            evaluations += 1
            d = depth_at - base_depth
            if d >= 1:
                bump(f"probe_fault_depth_{min(d, 3)}")
            if r[0] != "exc":
                viol("C03:injected-failure-swallowed", f"{main} with t failing ({exc_class.__name__}) at tick {kf}/{len(step_snaps)} returned {str(r)[:80]} "
                     f"instead of raising; ticks evaluated: {len(t_a.log)}")
                return
            if _depth(A) != d0:
                viol("C03:context-depth-not-restored", f"{main} failing at tick {kf} (call depth {d}): context depth {d0} -> {_depth(A)}")
                return          # the scope stack itself is off: nothing below can be compared meaningfully
            got = _globals(A)
            want = {n: canon(v) for n, v in state.items()}
            if got != want:
                diff = {n: (want.get(n), got.get(n)) for n in set(got) | set(want) if got.get(n) != want.get(n)}
                leaked = [n for n in diff if n in ("x", "y", "z", "la", "lb", ".f")]
                sig = "C03:parameter-or-local-leaked-into-globals" if leaked else "C03:globals-differ-after-failed-call"
                viol(sig, f"{main} failing ({exc_class.__name__}) at tick {kf} (depth {d}): expected vs actual {str(diff)[:300]}; defs {defs[5:9]}")
            if any(canon(v) != canon(snaps[0][1].get(n)) for n, v in state.items() if n in ("g1", "g2")):
                bump("probe_fault_after_global_assignment")
        if len(prefix):
            bump("probe_chain_of_failures")
        # ---- as if it had not happened: A vs a twin built fresh from the expected state
        t_b = Tick()
        B = _mk(defs, t_b, globs=state)
        if long_history:
            # a long history of failed calls on ONE interpreter (400 failures, each unwinding three nested calls):
            # whatever a failed call leaves behind must not add up
            bump("probe_long_history_of_failed_calls")
            for K in (A, B):
                for line in ("lh3::{t(0;x)+1}", "lh2::{lh3(x)*2}", "lh1::{lh2(x)-1}"):
                    K(line)
            for _ in range(400):
                t_a.reset(fail_at=1, exc_class=exc_class)
                r = _run(A, "lh1(1)")
                if r[0] != "exc" or _depth(A) != d0:
                    viol("C03:context-depth-not-restored", f"lh1(1) failing three calls deep: result {str(r)[:60]}, context depth {d0} -> {_depth(A)}")
                    return
            evaluations += 400
        ba = battery(A, t_a)
        bb = battery(B, t_b)
        if ba != bb:
            for (pa, ra, la_), (pb, rb, lb_) in zip(ba, bb):
                if (ra, la_) != (rb, lb_):
                    viol("C03:later-evaluation-differs-after-failed-call",
                         f"after {main} failed at tick(s) {prefix + [k_fail]}: probe {pa!r} gives {str(ra)[:120]} ticks {la_[:12]}; on a fresh interpreter in the same state: {str(rb)[:120]} ticks {lb_[:12]}")
                    break

    ks = list(range(1, N + 1))
    if N > 40:
        # exhaustive up to 40 ticks; for larger programs a drawn subset of 40 positions (always incl. first and last)
        pool = ks[1:-1]
        chosen = {1, N}
        while len(chosen) < 40:
            chosen.add(pool.pop(ch.draw(len(pool), "ksub")))
        ks = sorted(chosen)
        bump("probe_program_over_40_ticks_sampled")
    else:
        bump("probe_program_enumerated_exhaustively")
    for k_fail in ks:
        for ec in exc_classes:
            one_fault(k_fail, ec, [])
            if violations:
                break
        if violations:
            break
    if not violations and chain_len > 1:
        one_fault(1 + ch.draw(N, "chain_last"), ch.pick(exc_classes, "chain_ec"), chain_ks)
    if not violations and ch.draw(3, "longhist") == 0:
        one_fault(1 + ch.draw(N, "long_last"), ch.pick(exc_classes, "long_ec"), [], long_history=True)
    # ---- natural fault: an undefined function applied right after a tick
    if not violations:
        bump("probe_natural_fault_undefined_fn")
        nat_defs = list(defs)
        # replace the call of f3's last tick wrapper by an undefined function: t(N;e) -> zz(t(N;e))
        target = f"t({gen.tid};"
        for i, line in enumerate(nat_defs):
            if target in line and line.startswith("f"):
                nat_defs[i] = line.replace(target, "zz(" + target, 1).replace(")", "))", 1) if False else line
        # simpler and exact: call the undefined function on the result of the whole main program's first argument tick
        nat_main = main.replace("t(", "zz(t(", 1)
        # close the extra parenthesis right after that tick's closing one
        idx = nat_main.index("zz(t(") + 5
        level = 1
        j = idx
        while level:
            c = nat_main[j]
            level += c == "("
            level -= c == ")"
            j += 1
        nat_main = nat_main[:j] + ")" + nat_main[j:]
        t_a = Tick()
        A = _mk(defs, t_a)
        t_b = Tick()
        B = _mk(defs, t_b)
        t_a.reset()
        r = _run(A, nat_main)
        evaluations += 1
        if r[0] != "exc":
            viol("C03:undefined-function-call-did-not-raise", f"{nat_main} -> {r}")
        else:
            ga, gb = _globals(A), _globals(B)
            ga.pop("zz", None)
            if _depth(A) != _depth(B) or ga != gb:
                viol("C03:state-differs-after-undefined-function", f"{nat_main}: depth {_depth(A)} vs {_depth(B)}; globals differ: "
                     f"{ {n: (ga.get(n), gb.get(n)) for n in set(ga) | set(gb) if ga.get(n) != gb.get(n)} }")
    key = f"{len(snaps)}|{main[:24]}|{defs[6][:40]}"
    maxdepth = max(d for d, _ in snaps) - base_depth
    sample = {"mode": "faults", "defs": defs[5:], "main": main, "ticks": len(snaps), "max_call_depth": maxdepth, "reference_result": str(ref)[:60]}
    return {"violations": violations, "stats": stats, "evaluations": evaluations, "digest": None,
            "nontrivial_keys": [key] if maxdepth >= 1 else [], "state_keys": [f"depth{maxdepth}|N{min(N, 50)}"], "sample": sample, "tail": []}


# ------------------------------------------------------------------ substitution
BODIES = {
    1: ["x+1", "x*x", ":[x;10;20]", "[a];a::x+1;a*2", "x,x", ":[x;x+1;x-1]", "g1+x", "[a b];a::x;b::a+g1;b-a", ",x*g1", "[a];a::x+g1;a*2"],
    2: ["x-y", "(x*10)+y", ":[x;y;0-y]", "[a];a::x+y;a*a", "x,y", "y,x", ":[y;x;g1]", "(x*g1),y"],
    3: ["(x*100)+(y*10)+z", ":[x;y;z]", "[a];a::x-y;a*z", "x,y,z", "z,y,x", ":[z;x-y;y-x]"],
}
ARGV = ["0", "1", "2", "7", "[]", '""', '"a"', "[3 4]", "0.0", "2.5", '"hello"']


def scenario_subst(ch, cfg):
    from klongpy import KlongInterpreter
    stats = {}

    def bump(k, n=1):
        stats[k] = stats.get(k, 0) + n
    n = 1 + ch.draw(3, "arity")
    body = ch.pick(BODIES[n], "body")
    violations = []
    evaluations = 0
    keys = []

    def viol(sig, msg):
        if not any(v["sig"] == sig for v in violations) and len(violations) < 6:
            violations.append({"sig": sig, "msg": msg})

    numeric_only = not body.startswith(":[") and "," not in body
    pool = [a for a in ARGV if not numeric_only or a in ("0", "1", "2", "7", "2.5")]
    args = [ch.pick(pool, "arg") for _ in range(n)]

    def fresh():
        tick = Tick()
        k = KlongInterpreter()
        tick.klong = k
        k["t"] = tick
        k("g1::10")
        k(f"F::{{{body}}}")
        return k, tick

    # ---- expected: the body with x,y,z standing for the evaluated arguments
    kE, tE = fresh()
    for name, a in zip("xyz", args):
        kE(f"s{name}::{a}")
    sub = body
    has_locals = body.startswith("[")
    # textual substitution through a wrapper function whose parameters are bound to the evaluated arguments
    wrapper = "{" + body + "}"
    for name in "xyz"[:n]:
        wrapper = wrapper.replace(name, "s" + name) if False else wrapper
    # substitution proper: replace the parameter names by the global names sx, sy, sz (token level: the grammar
    # uses x y z only as parameters and no other identifier contains these letters except 'sx..' themselves)
    import re
    sub = re.sub(r"\b([xyz])\b", r"s\1", body)
    if body.startswith(":["):
        # Klong truth is decided by the harness, not by the interpreter under test: 0, [] and "" are false
        cp, ca, cb = body[2:-1].split(";")
        chosen = cb if args["xyz".index(cp)] in FALSY else ca
        sub = re.sub(r"\b([xyz])\b", r"s\1", chosen)
    expected = _run(kE, "{" + sub + "}()")
    if not has_locals:
        expected2 = _run(kE, sub)
        if expected2 != expected:
            raise HarnessError(f"substituted body evaluates differently as a function and as a program: {sub}")
    exp_globals = {k_: v for k_, v in _globals(kE).items() if k_ not in ("sx", "sy", "sz", "F")}
    if body.startswith(":["):
        bump("probe_cond_true_branch")
        bump("probe_cond_false_branch")

    def check(form, src_lines, want=None, tick_ids=None):
        nonlocal evaluations
        k, tick = fresh()
        tick.reset()
        r = None
        for line in src_lines:
            r = _run(k, line)
            if r[0] == "exc":
                break
        evaluations += 1
        keys.append(f"{body}|{form}")
        w = expected if want is None else want
        if r != w:
            viol(f"C03:subst:{form.split(':')[0]}-differs-from-substituted-body",
                 f"F::{{{body}}} with arguments {args}: {' ; '.join(src_lines)} gives {str(r)[:120]}; the body with the arguments substituted gives {str(w)[:120]}")
        if tick_ids is not None and sorted(tick.log) != sorted(tick_ids):
            viol(f"C03:subst:{form.split(':')[0]}-argument-evaluation-count",
                 f"{' ; '.join(src_lines)}: argument ticks evaluated {sorted(tick.log)}, expected exactly once each {sorted(tick_ids)}")
        g = {k_: v for k_, v in _globals(k).items() if k_ not in ("F", "v", "p1", "p2", "p3", "r9", "ga", "W")}
        if r == w and r[0] == "ok" and g != exp_globals:
            viol(f"C03:subst:{form.split(':')[0]}-leaves-different-globals", f"{' ; '.join(src_lines)}: globals {g} vs {exp_globals}")

    # recursion through .f against a closed form
    rn = ch.draw(5, "rec_n")
    kR, tR = fresh()
    kR("R::{:[x<1;0;x+.f(x-1)]}")
    rr = _run(kR, f"R({rn})")
    evaluations += 1
    if rr != ("ok", ("i", rn * (rn + 1) // 2)):
        viol("C03:subst:recursion-through-dot-f", f"R::{{:[x<1;0;x+.f(x-1)]}}; R({rn}) gives {rr}, expected {rn * (rn + 1) // 2}")
    # the same recursion with a declared local: every level of the recursion must have its own copy
    kR("RL::{[a];a::x;:[x<1;0;a+.f(x-1)]}")
    rl = _run(kR, f"RL({rn})")
    evaluations += 1
    if rl != ("ok", ("i", rn * (rn + 1) // 2)):
        viol("C03:subst:recursion-through-dot-f-shares-locals",
             f"RL::{{[a];a::x;:[x<1;0;a+.f(x-1)]}}; RL({rn}) gives {rl}, expected {rn * (rn + 1) // 2} (the local a of an outer level is overwritten by the inner call)")
    # two different recursive functions, the second called from inside a recursive activation of the first (either
    # operand order): RB(i) = 100+i, RA(n) = sum of RB(1..n).  Every level's .f must be the function it is in.
    bump("probe_nested_recursions")
    for ra_body in (":[x<1;0;.f(x-1)+RB(x)]", ":[x<1;0;RB(x)+.f(x-1)]"):
        kN, tN = fresh()
        kN("RB::{:[x<1;100;1+.f(x-1)]}")
        kN(f"RA::{{{ra_body}}}")
        rnn = _run(kN, f"RA({rn})")
        evaluations += 1
        if rnn != ("ok", ("i", 100 * rn + rn * (rn + 1) // 2)):
            viol("C03:subst:nested-recursions-through-dot-f", f"RB::{{:[x<1;100;1+.f(x-1)]}}; RA::{{{ra_body}}}; RA({rn}) gives {rnn}, "
                 f"expected {100 * rn + rn * (rn + 1) // 2}")
    # functions without parameters and without declared locals: recursion through .f inside another function's call,
    # and the caller's parameter afterwards
    bump("probe_nilad_calls")
    kZ, tZ = fresh()
    kZ("cnt::0")
    kZ("TK::{cnt::cnt+1;:[cnt<5;.f();cnt]}")
    kZ("OU::{TK()+x}")
    rz = _run(kZ, "OU(10)")
    rz2 = _run(kZ, "cnt::2;TK()")
    evaluations += 2
    if rz != ("ok", ("i", 15)) or rz2 != ("ok", ("i", 5)):
        viol("C03:subst:nilad-recursion-through-dot-f", f"cnt::0; TK::{{cnt::cnt+1;:[cnt<5;.f();cnt]}}; OU::{{TK()+x}}; OU(10) gives {rz} (expected 15); "
             f"then cnt::2;TK() gives {rz2} (expected 5)")
    # the caller's parameters and locals must be what they were after a parameter-less callee has run
    kZ("KP::{[a];a::x*2;TK();a+x}")
    rz3 = _run(kZ, "cnt::4;KP(3)")
    evaluations += 1
    if rz3 != ("ok", ("i", 9)):
        viol("C03:subst:nilad-call-disturbs-caller", f"KP::{{[a];a::x*2;TK();a+x}}; cnt::4;KP(3) gives {rz3}, expected 9")
    # recursion through .f in TAIL position with a declared local that only one level assigns: every level has a local
    # of its own, so the level that reads it without having assigned it sees an unassigned local (whatever that is - the
    # harness asks a function that does nothing else), never the value another level left behind
    bump("probe_tail_recursion_with_locals")
    kT, tT = fresh()
    unassigned = _run(kT, "{[t];t}()")
    for K in (0, 1 + ch.draw(3, "tail_k")):
        for tail_body in (f"[t];:[x={K};t::7;0];:[x=0;t;.f(x-1)]", f"[t];:[x={K};t::7;0];:[x=0;t;:[x>0;.f(x-1);0]]"):
            kT(f"RT::{{{tail_body}}}")
            for nn in (K, K + 1 + ch.draw(3, "tail_n")):
                rt = _run(kT, f"RT({nn})")
                evaluations += 1
                want_t = ("ok", ("i", 7)) if K == 0 else unassigned
                if rt != want_t:
                    viol("C03:subst:tail-recursion-through-dot-f-shares-locals",
                         f"RT::{{{tail_body}}}; RT({nn}) gives {rt}; the level with x=0 reads a local only the level with x={K} assigned: expected {want_t}")
    # a projection of a function that recurses through .f: .f is the function, not the projection it was reached through
    bump("probe_projection_of_recursive_function")
    kC, tC = fresh()
    kC("CN::{:[x=0;y;.f(x-1;y+1)]}")
    cn, cy = 1 + ch.draw(4, "cn_n"), ch.pick([0, 10, 100], "cn_y")
    for lines, want_c in (([f"p1::CN(;{cy})", f"p1({cn})"], ("i", cn + cy)), ([f"p2::CN({cn};)", f"p2({cy})"], ("i", cn + cy)),
                          ([f"p1::CN(;{cy})", f"p1@{cn}"], ("i", cn + cy)), ([f"p1::CN(;{cy})", f"p1'[{cn} {cn + 1}]"], ("L", (("i", cn + cy), ("i", cn + cy + 1)))),
                          ([f"p2::CN({cn};)", f"p2'[{cy} 1]"], ("L", (("i", cn + cy), ("i", cn + 1))))):
        kC2, _t = fresh()
        kC2("CN::{:[x=0;y;.f(x-1;y+1)]}")
        rc_ = None
        for line in lines:
            rc_ = _run(kC2, line)
        evaluations += 1
        if rc_ != ("ok", want_c):
            viol("C03:subst:projection-of-recursive-function", f"CN::{{:[x=0;y;.f(x-1;y+1)]}}; {' ; '.join(lines)} gives {str(rc_)[:100]}, expected {want_c} (x+y)")
    # a projection whose pre-filled argument is a literal list
    if n >= 2 and body in ("x,y", "y,x", "x,y,z", "z,y,x"):
        lit_first = ";".join(["[1 2]"] + [""] * (n - 1))
        rest_args = ["7", "[]"][:n - 1]
        kP, tP = fresh()
        kP(f"p1::F({lit_first})")
        rp = _run(kP, f"p1({';'.join(rest_args)})")
        kQ, tQ = fresh()
        rq = _run(kQ, f"F({';'.join(['[1 2]'] + rest_args)})")
        evaluations += 1
        if rp != rq:
            viol("C03:subst:projection-with-literal-list-argument", f"F::{{{body}}}; p1::F({lit_first}); p1({';'.join(rest_args)}) gives {str(rp)[:100]}; "
                 f"the direct call gives {str(rq)[:100]}")
    targs = [f"t({i + 1};{a})" for i, a in enumerate(args)]
    ids = list(range(1, n + 1))
    check("direct", [f"F({';'.join(targs)})"], tick_ids=ids)
    check("variable", ["v::F", f"v({';'.join(targs)})"], tick_ids=ids)
    if n == 1:
        if not args[0].startswith("["):
            # f@[a b] applies f to the elements of the list as separate arguments: only atoms here
            bump("probe_subst_at")
            check("at", [f"F@{targs[0]}"], tick_ids=ids)
        # each: F'[a a] == list of two substituted results (numeric args only)
        if args[0] in ("0", "1", "2", "7") and expected[0] == "ok":
            bump("probe_subst_each")
            check("each", [f"F'[{args[0]} {args[0]}]"], want=("ok", ("L", (expected[1], expected[1]))))
    else:
        if all(a in ("0", "1", "2", "7") for a in args):
            # integer atoms only: a literal list like [2.5 0] is one homogeneous real vector before @ ever sees it
            bump("probe_subst_at")
            check("at", [f"F@[{' '.join(args)}]"])
    if n == 2 and all(a in ("0", "1", "2", "7") for a in args) and not body.startswith("[") and "," not in body:
        # over: F/[a b] == F(a;b)
        bump("probe_subst_over")
        check("over", [f"F/[{args[0]} {args[1]}]"])
    if n == 2 and all(a in ("0", "1", "2", "7") for a in args):
        # the infix form of a dyad, a F b - on its own, and where a conditional takes its condition / its branches from
        bump("probe_subst_infix")
        check("infix", [f"{args[0]} F {args[1]}"])
        check("infix-as-branch", [f":[1;{args[0]} F {args[1]};99]"])
        if expected[0] == "ok":
            kI, tI = fresh()
            want_c = _run(kI, f':[F({args[0]};{args[1]});"then";"else"]')
            check("infix-as-condition", [f':[{args[0]} F {args[1]};"then";"else"]'], want=want_c)
            check("infix-as-condition-inside-a-function", ['W::{:[x F y;"then";"else"]}', f"W({args[0]};{args[1]})"], want=want_c)
            check("infix-as-later-condition", [f':[0;"first":|{args[0]} F {args[1]};"then";"else"]'], want=want_c)
    if n == 2:
        # over with the rows of a rectangular matrix as operands: F/[[1 2] [3 4]] == the body with x=[1 2], y=[3 4]
        bump("probe_subst_over_matrix")
        kM, tM = fresh()
        kM("sx::[1 2]")
        kM("sy::[3 4]")
        subm = re.sub(r"\b([xyz])\b", r"s\1", body[2:-1].split(";")[1] if body.startswith(":[") else body)
        wantm = _run(kM, "{" + subm + "}()")
        check("over-matrix", ["F/[[1 2] [3 4]]"], want=wantm)
    # ---- the same function after a global it reads has been reassigned: the body with the arguments substituted,
    #      evaluated under the NEW value (nothing about an earlier call may be remembered)
    if "g1" in body:
        bump("probe_subst_after_global_reassigned")
        kE2, tE2 = fresh()
        for name, a in zip("xyz", args):
            kE2(f"s{name}::{a}")
        kE2("g1::3")
        want2 = _run(kE2, "{" + sub + "}()")
        check("again-after-global-reassigned", [f"F({';'.join(args)})", "g1::3", f"F({';'.join(args)})", "r9::F(" + ";".join(args) + ");g1::10;r9"], want=want2)
    # ---- a projection held in a variable as the verb of each
    if n == 2 and all(a in ("0", "1", "2", "7") for a in args) and not body.startswith("[") and expected[0] == "ok":
        bump("probe_subst_projection_as_each_verb")
        check("projection-each", [f"p1::F({args[0]};)", f"p1'[{args[1]} {args[1]}]"], want=("ok", ("L", (expected[1], expected[1]))))
        check("projection-each", [f"p1::F(;{args[1]})", f"p1'[{args[0]} {args[0]}]"], want=("ok", ("L", (expected[1], expected[1]))))
    # ---- the same with a fixed argument that is not a literal: a global variable, a computed expression
    if n == 2 and all(a in ("0", "1", "2", "7") for a in args) and not body.startswith("[") and expected[0] == "ok":
        bump("probe_projection_with_variable_argument_as_verb")
        two = ("ok", ("L", (expected[1], expected[1])))
        a0, a1 = args
        check("projection-var-each", [f"ga::{a0}", f"p1::F(ga;)", f"p1'[{a1} {a1}]"], want=two)
        check("projection-var-each", [f"ga::{a1}", f"p1::F(;ga)", f"p1'[{a0} {a0}]"], want=two)
        check("projection-var-each", [f"ga::{a0}", f"F(ga;)'[{a1} {a1}]"], want=two)
        check("projection-var-each", [f"ga::{a0}", f"p1::F(ga+0;)", f"p1'[{a1} {a1}]"], want=two)
        check("projection-var-at", [f"ga::{a0}", f"p1::F(ga;)", f"p1@{a1}"])
        check("projection-var-at", [f"ga::{a1}", f"p1::F(;ga+0)", f"p1@{a0}"])
        # ... and from inside a function whose parameter is the fixed argument
        check("projection-var-each", [f"W::{{F(x;)'[{a1} {a1}]}}", f"W({a0})"], want=two)
    # ---- projections: every non-empty proper subset of holes, filled in every order, one or several steps
    if n >= 2:
        bump("probe_subst_projection_patterns")
        idx = list(range(n))
        for r_ in range(1, n):
            for holes in itertools.combinations(idx, r_):
                first = ";".join("" if i in holes else targs[i] for i in idx)
                # all at once
                rest = ";".join(targs[i] for i in holes)
                check(f"projection:{holes}:all-at-once", [f"p1::F({first})", f"p1({rest})"], tick_ids=ids)
                if len(holes) == 2:
                    h0, h1 = holes
                    # two steps, either order
                    check(f"projection:{holes}:first-then-second", [f"p1::F({first})", f"p2::p1({targs[h0]};)", f"p2({targs[h1]})"], tick_ids=ids)
                    check(f"projection:{holes}:second-then-first", [f"p1::F({first})", f"p2::p1(;{targs[h1]})", f"p2({targs[h0]})"], tick_ids=ids)
        if n == 3:
            # three steps: open all but one, then one by one in both orders
            for keep in idx:
                holes = [i for i in idx if i != keep]
                first = ";".join(targs[i] if i == keep else "" for i in idx)
                check(f"projection:3step:{keep}:a", [f"p1::F({first})", f"p2::p1({targs[holes[0]]};)", f"p2({targs[holes[1]]})"], tick_ids=ids)
                check(f"projection:3step:{keep}:b", [f"p1::F({first})", f"p2::p1(;{targs[holes[1]]})", f"p2({targs[holes[0]]})"], tick_ids=ids)
    sample = {"mode": "subst", "function": f"F::{{{body}}}", "args": args, "expected": str(expected)[:80], "forms_checked": evaluations}
    return {"violations": violations, "stats": stats, "evaluations": evaluations, "digest": None,
            "nontrivial_keys": sorted(set(keys)), "state_keys": [body], "sample": sample, "tail": []}
