"""C14 - every remote call gets its own answer or an error; never another's; never hangs.

Real sys_fn_ipc NetworkClient (and, in configuration R, the real server) on SimLoops over
SimNet; 1-3 concurrent caller threads x 1-3 calls; faults: connection cut (FIN/RST) at a drawn
byte class of a drawn frame in either direction, server shutdown, client close racing with
calls, server-side evaluation errors, connect-before-listen (retry path).  Configuration A
replaces the server by a scripted adversarial peer that answers in any order and pushes
requests of its own.  Liveness is judged at quiescence, never by a wall clock.
"""
import traceback

from sim.ipcenv import CUT_CLASSES, IpcEnv, PORT
from sim.world import HarnessError, install_patches

PROPERTY = "C14"
LEVEL = "exploration"
RULE = ("each run = 1-3 concurrent caller threads x 1-3 remote calls with attributable results against the real server (R) or a "
        "scripted adversarial peer (A: any response order, server-push requests), a seeded schedule of all loops/threads/network "
        "deliveries with drawn stream fragmentation, and at most one fault plan: connection cut FIN/RST at a byte class "
        "(before any byte, inside id, id/length boundary, inside length, length/body boundary, inside body, frame end-1, between "
        "frames) of a drawn frame in either direction, server shutdown, client close racing, server-side error, connect-before-"
        "listen; after an observed loss each caller issues one more call; non-trivial = a fault fired or responses arrived out "
        "of request order or >= 2 calls were pending at once; distinct = distinct digest of the event log.  Cuts come as FIN, "
        "RST or ETIMEDOUT; calls are strings, function calls, proxies, remote dictionary get/set, requests and responses above "
        "64 KiB, requests that cannot be encoded (one, or 70 in a row), server values that cannot be sent back; write "
        "back-pressure and a failing application on_error callback are drawn per run; a second client on its own connection "
        "in the two-clients configuration; the real-hot configuration pre-empts the io loop at source lines of the loop that "
        "fails the pending callers (1 in 3 per line, an application thread preferred as successor), so that a call is "
        "registered while that loop is walking the table")
ASSUMPTIONS = [
    "TCP model: in-order, lossless, duplicate-free byte pipes per direction; cuts sever both directions; no silent stall without close",
    "exception class is free: any exception counts as 'raises'; exceptions raised by harness stubs are harness errors",
    "hang = a caller still blocked when the world is quiescent (no runnable actor, no bytes in flight, no timer)",
]
REAL_STUB = {
    "real": ["klongpy.sys_fn_ipc: NetworkClient, HostPortConnectionProvider, TcpServerHandler/ConnectionHandler, framing", "KlongInterpreter on both nodes",
             "asyncio streams/tasks/futures (stdlib)", "concurrent.futures (run_coroutine_threadsafe)"],
    "stub": ["event loops -> SimLoop (virtual time, one handle per grant)", "TCP -> SimNet", "threading.Event in sys_fn_ipc -> SimEvent",
             "uuid4 -> counter", "configuration A: server -> scripted peer using the real encode_message/stream_recv_msg"],
}
EXPECTED_PROBES = [f"fault_cut_{c}_{k}" for c in CUT_CLASSES for k in ("fin", "rst")] + [
    "probe_two_or_more_pending", "probe_three_pending", "probe_out_of_order_arrival", "probe_call_after_loss", "probe_close_race", "probe_failing_function_form_request", "probe_close_path_0", "probe_close_path_1", "probe_close_path_2", "probe_close_path_3",
    "probe_retry_path", "probe_server_error", "probe_server_shutdown", "probe_peer_push_handled", "probe_cut_with_calls_pending",
    "probe_big_response", "probe_big_request", "probe_unencodable_request", "probe_broken_on_error_ran",
    "probe_many_unencodable_requests_then_a_call", "net_cut_timeout", "probe_two_connections", "line_preemptions_hot", "probe_bidirectional", "probe_reverse_call",
    "probe_server_initiated_close", "net_stall", "probe_request_with_effect", "probe_slow_on_close_ran", "probe_push_call_issued_on_the_klong_loop",
    "probe_server_evaluation_leaves_through_exit", "probe_request_that_is_a_plain_number"]
WALL_CAP = {"quick": 400, "thorough": 3600}


# functions whose lines are pre-emption chances of their own in the real-hot configuration: the loop that fails the
# pending callers when the listener exits (it walks the table that caller threads insert into)
HOT = ["_cleanup_pending_responses"]


def setup_worker():
    install_patches()
    import klongpy.sys_fn_ipc  # noqa


def plan(tier):
    if tier == "quick":
        return [("real", {"peer": "real"}, 2600, 50), ("adversary", {"peer": "scripted"}, 2200, 50),
                ("real-lines", {"peer": "real", "lines": 1}, 500, 25), ("two-clients", {"peer": "real", "clients": 2}, 500, 25),
                ("real-hot", {"peer": "real", "lines": 1, "hot": HOT, "hot_budget": 4}, 2200, 50),
                ("bidir", {"peer": "real", "bidir": 1}, 1500, 50)]
    return [("real", {"peer": "real"}, 70000, 100), ("adversary", {"peer": "scripted"}, 70000, 100),
            ("real-lines", {"peer": "real", "lines": 1}, 30000, 50), ("two-clients", {"peer": "real", "clients": 2}, 30000, 50),
            ("real-hot", {"peer": "real", "lines": 1, "hot": HOT, "hot_budget": 4}, 60000, 100),
            ("bidir", {"peer": "real", "bidir": 1}, 60000, 100)]


def _from_harness(exc):
    tb = traceback.extract_tb(exc.__traceback__)
    return bool(tb) and tb[-1].filename.startswith("/verif/") or isinstance(exc, HarnessError)


def scenario(ch, cfg):
    from klongpy.core import KGSym
    import klongpy.sys_fn_ipc as ipc
    peer_kind = cfg["peer"]
    env = IpcEnv(ch, max_steps=40000, peer=peer_kind, lines=(1 + ch.draw(3, "budget")) if cfg.get("lines") else 0,
                 hot=cfg.get("hot", ()), hot_budget=cfg.get("hot_budget", 0))
    w, net = env.w, env.net
    stats = w.stats
    ncallers = 1 + ch.weighted([2, 3, 3], "ncallers")
    if cfg.get("bidir"):
        ncallers = max(2, ncallers)      # at least one caller per direction
    ncalls = [1 + ch.weighted([3, 2, 1], "ncalls") for _ in range(ncallers)]
    total_calls = sum(ncalls)
    # ---- fault plan
    fkinds = ["none", "cut", "cut", "cut", "close-race", "stall"]
    if peer_kind == "real":
        fkinds += ["server-error", "server-shutdown", "connect-first"]
    else:
        fkinds += ["push", "push"]
    fault = ch.pick(fkinds, "fault")
    if fault == "cut":
        env.cut_plan = {"direction": ch.weighted([1, 3], "cut.dir"), "frame": ch.draw(total_calls + 1, "cut.frame"),
                        "cls": ch.pick(CUT_CLASSES, "cut.cls"), "kind": ch.pick(["fin", "rst", "fin", "rst", "timeout"], "cut.kind"), "cid": 0}
    if fault == "stall":
        # the path goes silent in the middle of a frame for a while and then continues: a delay, not a loss - every call
        # still gets its own answer (nothing in the protocol has a deadline; a change that adds one must survive this)
        env.cut_plan = {"direction": ch.weighted([1, 3], "cut.dir"), "frame": ch.draw(total_calls + 1, "cut.frame"),
                        "cls": ch.pick(CUT_CLASSES[1:7], "cut.cls"), "kind": "stall", "cid": 0,
                        "stall_for": ch.pick([0.4, 1.5, 2.5, 8.0, 40.0], "stall.for")}
    if peer_kind == "scripted":
        env.peer.push_budget = (1 + ch.draw(2, "npush")) if fault == "push" else 0

        def answer(msg):
            if isinstance(msg, str) and "+" in msg:
                a, b = msg.split("+")
                return int(a) + int(b)
            if isinstance(msg, ipc.KGRemoteCloseConnection):
                return msg
            return ("echo", repr(msg)[:40])
        env.peer.answer_fn = answer
    violations = []
    records = []
    state = {"nc": None, "connected": False, "loss_seen": False}

    def viol(sig, msg):
        violations.append({"sig": sig, "msg": msg})

    evlog = []

    def ev(x):
        evlog.append(int(x))
        return int(x) + 1
    # ---- server
    bidir = bool(cfg.get("bidir"))
    SRC = ["sq::{x*x}", "v::4711", "cnt::{[a];a::x;#a}", "big::{[a];a::x;!a}", "failfn::{x+nosuchfn(x)}", "failfn2::{x,nosuchfn(y)}"]
    if peer_kind == "real":
        env.server.klong["unpd"] = {1: (lambda: 0)}      # a server-side value that cannot be pickled
        env.server.klong["ev"] = ev
        if bidir:
            # the documented server-push set-up: .srv.o receives the handle of the connecting client and keeps it;
            # the server later calls the client through it (docs/ipc_capabilities.md, "Server Callbacks")
            SRC = SRC + ["cl::0", ".srv.o::{cl::x}"]
            env.client.klong["unpd"] = {1: (lambda: 0)}
            env.client.klong["ev"] = ev
            for line in SRC[:6]:
                env.client.klong(line)
        if fault != "connect-first":
            env.start_server(src=SRC)
            w.run(until=lambda: env.listener_up() and (not bidir or env.booted()), max_steps=2000)
        else:
            stats["probe_retry_path"] += 1
            # the listener appears only after the client's first attempt was refused
            env.server.klongloop.call_later(2.0 + ch.draw(8, "srvdelay"), lambda: [env.server.klong(f".srv({PORT})")] + [env.server.klong(line) for line in SRC])
    else:
        w.run(until=lambda: env.listener_up(), max_steps=2000)

    # ---- client connects the way a user does
    # 2 runs in 7 the client is made through the Python API with application callbacks that take a while (they await):
    # whatever the callbacks do, and however long, the callers are failed as always
    api_client = ch.weighted([5, 2], "api_client") == 1
    slow = {"n": 1 + ch.draw(6, "onclose.yields")}

    async def slow_on_close(client):
        import asyncio as _a
        stats["probe_slow_on_close_ran"] += 1
        for _ in range(slow["n"]):
            await _a.sleep(0)

    def connect():
        if api_client:
            k = env.client.klong
            sysd = k[".system"]
            state["nc"] = ipc.NetworkClient.create_from_addr(sysd["ioloop"], sysd["klongloop"], k, sysd["closeEvent"], PORT,
                                                             on_close=slow_on_close).run_client()
            return
        state["nc"] = env.client.klong(f".cli({PORT})")
    ca = w.spawn("connect", connect)
    r = w.run(until=lambda: ca.done, max_steps=20000)
    if not ca.done:
        viol("C14:hang:connect", f".cli() never returned ({r}); blocked at {ca.desc}")
        out = _finish(env, violations, records, {}, False)
        return out
    if ca.exc is not None:
        if _from_harness(ca.exc):
            raise HarnessError(f"connect: {ca.exc!r}")
        viol(f"C14:connect-raises:{type(ca.exc).__name__}", str(ca.exc)[:100])
        return _finish(env, violations, records, {}, False)
    nc = state["nc"]
    if not isinstance(nc, ipc.NetworkClient):
        raise HarnessError(f".cli returned {nc!r}")
    # optional second client process on its own connection: faults on connection 0 must not leak into it
    nc2 = None
    if cfg.get("clients") == 2:
        from sim.klnode import Node
        client2 = Node(w, net, "D")

        def connect2():
            state["nc2"] = client2.klong(f".cli({PORT})")
        cb = w.spawn("connect2", connect2)
        w.run(until=lambda: cb.done, max_steps=20000)
        if not cb.done or cb.exc is not None or not isinstance(state.get("nc2"), ipc.NetworkClient):
            viol("C14:second-client-cannot-connect", f"second .cli(): done={cb.done} exc={cb.exc!r}")
            return _finish(env, violations, records, {}, False)
        nc2 = state["nc2"]
        stats["probe_two_connections"] += 1
    ncs = [nc] if nc2 is None else [nc, nc2]
    if bidir:
        # the server's handle on the same connection: odd-numbered callers are server-side threads calling the client
        def server_handle():
            try:
                return env.server.klong["cl"]
            except KeyError:
                return None
        w.run(until=lambda: isinstance(server_handle(), ipc.NetworkClient), max_steps=4000)
        snc = server_handle()
        if not isinstance(snc, ipc.NetworkClient):
            viol("C14:srv.o-did-not-receive-the-client-handle", f".srv.o::{{cl::x}} left cl = {snc!r} after the client connected")
            return _finish(env, violations, records, {}, False)
        ncs = [nc, snc]
        stats["probe_bidirectional"] += 1
    # application callbacks of the Python API (NetworkClient(on_error=..., on_close=...)) that themselves fail:
    # the documented handling is "log and go on" - the pending callers are failed all the same
    # (on_error is looked up when the error happens; on_close is bound when the client starts, so only the former
    # can be installed on a client made by .cli)
    if ch.weighted([5, 2], "callbacks"):
        stats["probe_raising_app_callback"] += 1

        async def broken_on_error(client, e):
            stats["probe_broken_on_error_ran"] += 1
            raise RuntimeError("application error handler is broken")
        nc.on_error = broken_on_error

    # ---- callers
    def make_msg(i, j):
        base = 1000 * (i + 1)
        kind = 0 if peer_kind == "scripted" else ch.weighted([10, 4, 2, 2, 2, 2, 2, 2, 2, 1, 5, 2], "msgkind")
        if kind == 11:
            # the request is a plain value, not text: f(1003), f(1003.5) - it is evaluated like its text and answers itself
            stats["probe_request_that_is_a_plain_number"] += 1
            v = base + j + (0.5 if ch.draw(2, "plainfloat") else 0)
            return v, v
        if kind == 10:
            # a request with an effect on the serving side: it happens once if the call returns, at most once whatever
            # becomes of the connection ("not twice")
            stats["probe_request_with_effect"] += 1
            return f"ev({base + j})", base + j + 1
        if kind == 9:
            # a long history of locally failing requests on this connection (each must raise), then an ordinary call:
            # failed sends must not use anything up
            stats["probe_many_unencodable_requests_then_a_call"] += 1
            return ("many-unencodable", 70, f"{base}+{j}"), base + j
        if kind == 7:
            # a response frame larger than 64 KiB (cuts can then fall inside a large body)
            n = 8300 + 10 * i + j
            stats["probe_big_response"] += 1
            return ipc.KGRemoteFnCall(KGSym("big"), [n]), ("len", n)
        if kind == 8:
            # a request that cannot be encoded: this call must raise, the connection and the other calls are unaffected
            stats["probe_unencodable_request"] += 1
            return ipc.KGRemoteFnCall(KGSym("sq"), [lambda: 0]), "local-error"
        if kind == 6:
            # a request frame larger than 64 KiB (several callers may be sending at once): the answer is its length
            import numpy as np
            n = 8300 + 10 * i + j
            stats["probe_big_request"] += 1
            return ipc.KGRemoteFnCall(KGSym("cnt"), [np.arange(n)]), n
        if kind == 0:
            return f"{base}+{j}", base + j
        if kind == 1:
            return ipc.KGRemoteFnCall(KGSym("sq"), [base + j]), (base + j) ** 2
        if kind == 2:
            return f"v+{base + j}", 4711 + base + j
        if kind == 3:
            # the other client-side handles of the same connection: function proxy, remote dictionary get / set
            return ("proxy", base + j), (base + j) ** 2
        if kind == 4:
            return ("dictget",), 4711
        return ("dictset", base + j), "handle"

    error_call = None
    if fault == "server-error":
        error_call = (ch.draw(ncallers, "err.caller"), ch.draw(3, "err.call"))
    plans = []
    for i in range(ncallers):
        calls = []
        for j in range(ncalls[i]):
            msg, exp = make_msg(i, j)
            if error_call == (i, j) or (error_call and error_call[0] == i and j == ncalls[i] - 1 and error_call[1] >= ncalls[i]):
                # evaluation errors of different kinds, incl. the server's separate "symbol not found" path
                # (a function call / dictionary get on a name that does not exist)
                # ... and a request that evaluates fine but to a value that cannot be sent back ("unpd")
                msg, exp = ch.pick(["1+", "nosuchfn(1)", "[1 2 3]@99", ipc.KGRemoteFnCall(KGSym("nosuchfn"), [1]),
                                    ipc.KGRemoteDictGetCall(KGSym("nosuchvar")), "unpd", ".x(0)",
                                    # a function that exists and fails, called in function form with arguments of every kind
                                    ipc.KGRemoteFnCall(KGSym("failfn"), [7]), ipc.KGRemoteFnCall(KGSym("failfn"), [[1, 2.5]]),
                                    ipc.KGRemoteFnCall(KGSym("failfn"), ["text"]), ipc.KGRemoteFnCall(KGSym("failfn2"), ["a", 3]),
                                    ipc.KGRemoteFnCall(KGSym("failfn2"), [KGSym("s"), {1: 2}])], "errexpr"), "error"
                if isinstance(msg, ipc.KGRemoteFnCall) and str(msg.sym).startswith("failfn"):
                    stats["probe_failing_function_form_request"] += 1
                stats["probe_server_error"] += 1
                if msg == ".x(0)":
                    # the evaluation ends through an exit request: a failed evaluation like any other (found: it ended the
                    # server's klong loop thread and every caller waited for ever; repaired 4d6ac5e)
                    stats["probe_server_evaluation_leaves_through_exit"] += 1
            calls.append((msg, exp))
        plans.append(calls)

    def pending_now():
        return sum(1 for rec in records if rec.get("ret_step") is None)

    on_kl_callers = set()
    kl_mode = None
    if bidir and ch.draw(2, "rev.on_klongloop"):
        # the server's push calls come from its klong loop (a timer callback, a REPL line), not from a thread of their own;
        # one such caller only: two blocking calls cannot be in progress on one loop
        on_kl_callers.add(1)
        stats["probe_push_call_issued_on_the_klong_loop"] += 1
        if ch.draw(4, "rev.kl_mode") == 0 and fault in ("none", "stall"):
            # ... while the client has requests of its own in flight on the same connection (known finding, see below)
            kl_mode = "with-client-requests"
        else:
            # ... and nothing else is asking for the server's klong loop meanwhile: the client side only answers
            kl_mode = "push-only"
            for i in range(ncallers):
                if i % 2 == 0:
                    plans[i] = []

    def caller(i):
        extra = 0
        nc = ncs[i % len(ncs)]          # the connection this caller uses
        calls = list(plans[i])
        j = 0
        while j < len(calls):
            msg, exp = calls[j]
            w.yield_point("invoke")
            rec = {"caller": i, "idx": j, "msg": ("fncall(sq,[<python lambda>])" if exp == "local-error" else
                                               f"fncall({msg.sym},{str(msg.params)[:30]})" if hasattr(msg, "sym") else
                                               f"dictget({msg.key})" if hasattr(msg, "key") else repr(msg)[:40]),
                   "expected": exp, "inv_step": w.steps, "ret_step": None, "conn": i % len(ncs),
                   "after_loss": (i % len(ncs)) in state.get("lost_conn", ())}
            records.append(rec)
            if bidir and i % 2 == 1:
                stats["probe_reverse_call"] += 1
            np_ = pending_now()
            if np_ >= 2:
                stats["probe_two_or_more_pending"] += 1
            if np_ >= 3:
                stats["probe_three_pending"] += 1
            w.note(f"inv {i}.{j}")
            try:
                if isinstance(msg, tuple) and msg[0] == "proxy":
                    stats["probe_proxy_caller"] += 1
                    res = ipc.KGRemoteFnProxy(nc, KGSym("sq"), 1)(None, {KGSym("x"): msg[1]})
                elif isinstance(msg, tuple) and msg[0] == "dictget":
                    stats["probe_dict_handle_caller"] += 1
                    res = ipc.NetworkClientDictHandle(nc).get(KGSym("v"))
                elif isinstance(msg, tuple) and msg[0] == "many-unencodable":
                    returned = 0
                    for _ in range(msg[1]):
                        try:
                            nc.call(ipc.KGRemoteFnCall(KGSym("sq"), [lambda: 0]))
                            returned += 1
                        except SystemExit:
                            raise
                        except BaseException as e:   # noqa
                            if _from_harness(e):
                                raise
                    res = nc.call(msg[2]) if not returned else f"{returned} unencodable request(s) returned a value"
                elif isinstance(msg, tuple) and msg[0] == "dictset":
                    stats["probe_dict_handle_caller"] += 1
                    h = ipc.NetworkClientDictHandle(nc)
                    res = "handle" if h.set(KGSym(f"w{i}"), msg[1]) is h else "not-the-handle"
                elif i in on_kl_callers:
                    box = env.server.on_klongloop(lambda nc=nc, msg=msg: nc.call(msg))
                    w.block_until(lambda: "result" in box or "exc" in box, "klongloop.call")
                    if "exc" in box:
                        raise box["exc"]
                    res = box["result"]
                else:
                    res = nc.call(msg)
                rec["outcome"] = ("ok", res)
            except SystemExit:
                raise
            except BaseException as e:   # noqa
                if _from_harness(e):
                    rec["outcome"] = ("harness", repr(e) + "".join(traceback.format_tb(e.__traceback__)[-3:]))
                else:
                    rec["outcome"] = ("exc", type(e).__name__, str(e)[:80])
            rec["ret_step"] = w.steps
            w.note(f"ret {i}.{j} {rec['outcome'][0]} {str(rec['outcome'][1])[:60] if rec['outcome'][0] != 'harness' else ''}")
            if rec["outcome"][0] == "exc" and exp not in ("error", "local-error"):
                state["loss_seen"] = True
                state.setdefault("lost_conn", set()).add(i % len(ncs))
                if extra == 0:
                    # one more call after the loss was observed: must fail promptly, never hang
                    extra = 1
                    stats["probe_call_after_loss"] += 1
                    calls.append((f"{9000 + i}+1", "must-fail"))
            j += 1

    actors = [w.spawn(f"caller{i}", lambda i=i: caller(i)) for i in range(ncallers)]
    closer = None
    if fault == "close-race":
        delay = ch.draw(60, "close.delay")
        close_side = ch.draw(2, "close.side") if bidir else 0
        close_how = ch.draw(4, "close.how")

        def do_close():
            for _ in range(delay):
                w.yield_point("wait")
            stats["probe_close_race"] += 1
            w.note("close() begins")
            if bidir and close_side:
                # the server closes this connection through its handle (what its shutdown event does): the same
                # handshake, started from the other end
                stats["probe_server_initiated_close"] += 1
                ncs[1].close()
            else:
                # the documented ways of closing from this side: the handle's close(), .clic of the function handle,
                # .clic of a dictionary handle of the same connection, the process's shutdown event
                how = close_how
                stats[f"probe_close_path_{how}"] += 1
                if how == 0:
                    nc.close()
                elif how == 1:
                    r = ipc.eval_sys_fn_shutdown_client(nc)
                    if r not in (0, 1):
                        viol("C14:clic-returns-neither-0-nor-1", f".clic(f) returned {r!r}")
                elif how == 2:
                    ipc.eval_sys_fn_shutdown_client(ipc.NetworkClientDictHandle(nc))
                else:
                    env.client.close_event.trigger()
            w.note("close() returned")
        closer = w.spawn("closer", do_close)
        actors.append(closer)
    if fault == "server-shutdown":
        delay = ch.draw(40, "shutdown.delay")

        def arm():
            stats["probe_server_shutdown"] += 1
            env.server.klong(".srv(0)")
        # issued from the server's klongloop after a drawn number of its own iterations
        def later(n):
            if n <= 0:
                arm()
            else:
                env.server.klongloop.call_soon(later, n - 1)
        env.server.klongloop.call_soon_threadsafe(later, delay)

    reason = w.run(until=lambda: all(a.done for a in actors), max_steps=40000)
    fired = env.cut_fired is not None and any(c.cut for c in net.conns)
    # ---- oracles
    for a in actors:
        if a.done and a.exc is not None:
            if _from_harness(a.exc):
                raise HarnessError(f"{a.name}: {a.exc!r}")
            if a is closer:
                # close() raising is an allowed outcome (it completed); record for the evidence
                stats["probe_close_raised"] += 1
            else:
                raise HarnessError(f"{a.name} crashed outside a call: {a.exc!r}")
    ctx = f"fault={fault}" + (f" cut={env.cut_fired}" if env.cut_fired else "")
    if not all(a.done for a in actors):
        for a in actors:
            if not a.done:
                what = "close()" if a is closer else "remote call"
                pend = [f"{r['caller']}.{r['idx']}" for r in records if r["ret_step"] is None]
                cls = "close" if a is closer else ("after-loss" if any(r["ret_step"] is None and r["after_loss"] and r["caller"] == int(a.name[-1]) for r in records) else "pending-call")
                if reason == "quiescent" and kl_mode == "with-client-requests" and any(
                        r["ret_step"] is None and r["caller"] in on_kl_callers for r in records):
                    # KNOWN (known_findings.json): the server's klong loop is blocked in its push call; a request of the client
                    # arrives on the same connection; the server's listener hands it to the klong loop and waits - and so
                    # never reads the client's answer to the push.  Both calls wait for ever.  Only this constellation (push
                    # issued on the klong loop, client requests in flight, no loss) carries this signature.
                    viol("C14:deadlock:push-from-the-klong-loop-while-a-request-of-the-same-connection-is-served",
                         f"{what} of {a.name} never completes; pending calls {pend}; {ctx}")
                elif reason == "quiescent":
                    viol(f"C14:hang:{cls}:{fault if fault != 'cut' else 'cut-' + (env.cut_fired or env.cut_plan)['cls'] if env.cut_plan else fault}",
                         f"{what} of {a.name} never completes: world quiescent with the caller blocked at {a.desc}; pending calls {pend}; {ctx}")
                else:
                    viol(f"C14:no-progress:{reason}", f"{a.name} still blocked at {a.desc} after {w.steps} steps; {ctx}")
    for rec in records:
        oc = rec.get("outcome")
        if oc is None:
            continue
        if oc[0] == "harness":
            raise HarnessError(f"exception from harness code inside a call: {oc[1]}")
        exp = rec["expected"]
        if exp == "local-error":
            # the request cannot be encoded: this call fails at the caller; nothing else is affected (the other
            # records are judged by their own rules, so a leak of this failure to them is reported there)
            if oc[0] == "ok":
                viol("C14:unencodable-request-returned-a-value", f"call {rec['caller']}.{rec['idx']} {rec['msg']} returned {str(oc[1])[:60]!r} "
                     f"although its request cannot be encoded; {ctx}")
            continue
        if nc2 is not None and rec["conn"] == 1 and oc[0] == "exc" and exp not in ("error", "must-fail"):
            only_conn0 = fault in ("cut", "close-race") or (fault == "server-error" and error_call is not None and error_call[0] % 2 == 0)
            if only_conn0:
                viol("C14:failure-leaked-to-other-connection", f"call {rec['caller']}.{rec['idx']} {rec['msg']} on the second client's own connection raised "
                     f"{oc[1]}: {oc[2]} although the fault ({fault}) concerned the first connection only")
        if oc[0] == "exc" and fault in ("none", "push", "connect-first", "stall") and exp not in ("error", "must-fail"):
            # nothing was injected that could excuse a failure: the call must return its answer
            viol(f"C14:call-raised-without-fault:{oc[1]}", f"call {rec['caller']}.{rec['idx']} {rec['msg']} raised {oc[1]}: {oc[2]} in a run without any injected fault ({fault})")
        if oc[0] == "ok":
            if exp == "must-fail":
                # "calls made after the connection has gone fail promptly rather than hang": what is demanded is that the
                # call completes.  An implementation that has a connection again by then may answer - with this call's own
                # answer, nothing else
                stats["probe_call_after_loss_answered"] += 1
                want = int(str(rec["msg"]).strip("'").split("+")[0]) + 1
                try:
                    ok_ = int(oc[1]) == want
                except Exception:
                    ok_ = False
                if not ok_:
                    viol("C14:call-after-loss-returned-a-wrong-value", f"call {rec['caller']}.{rec['idx']} {rec['msg']} issued after the connection was lost returned "
                         f"{oc[1]!r}, which is not its answer {want}; {ctx}")
            elif exp == "error":
                viol("C14:server-error-not-propagated", f"call {rec['msg']} returned {oc[1]!r} although the server-side evaluation fails")
            else:
                try:
                    if isinstance(exp, tuple) and exp[0] == "len":
                        import numpy as np
                        same = len(oc[1]) == exp[1] and bool((np.asarray(oc[1]) == np.arange(exp[1])).all())
                    else:
                        same = (oc[1] == exp) if isinstance(exp, str) else (float(oc[1]) == exp if isinstance(exp, float) else int(oc[1]) == exp)
                except Exception:
                    same = False
                if not same:
                    others = [r["expected"] for r in records if r is not rec]
                    sig = "C14:anothers-answer" if any(str(oc[1]) == str(o) for o in others) else "C14:wrong-answer"
                    viol(sig, f"call {rec['caller']}.{rec['idx']} {rec['msg']} returned {oc[1]!r}, its own answer is {exp!r}; {ctx}")
    # effects: every request is evaluated at most once; exactly once when its call returned
    for rec in records:
        if isinstance(rec["expected"], int) and str(rec["msg"]).startswith("'ev("):
            n_ev = evlog.count(rec["expected"] - 1)
            if n_ev > 1:
                viol("C14:request-evaluated-more-than-once", f"call {rec['caller']}.{rec['idx']} {rec['msg']} was evaluated {n_ev} times on the serving side "
                     f"(outcome at the caller: {str(rec.get('outcome'))[:60]}); {ctx}")
            elif n_ev == 0 and rec.get("outcome", ("",))[0] == "ok":
                viol("C14:answered-without-evaluation", f"call {rec['caller']}.{rec['idx']} {rec['msg']} returned {rec['outcome'][1]!r} but was never evaluated on the serving side")
    # arrival order probe
    inv = [(r["inv_step"], r["ret_step"]) for r in records if r.get("outcome", ("",))[0] == "ok"]
    if any(a[0] < b[0] and a[1] > b[1] for a in inv for b in inv):
        stats["probe_out_of_order_arrival"] += 1
    if fired and any(r["inv_step"] <= w.steps and r.get("outcome", ("",))[0] == "exc" for r in records):
        stats["probe_cut_with_calls_pending"] += 1
    if peer_kind == "scripted" and env.peer.push_responses:
        stats["probe_peer_push_handled"] += len(env.peer.push_responses)
    # ---- drain: the system must settle (diagnostics only, bounded)
    settle = w.run(max_steps=6000)
    diag = {"settle": settle, "stale_pending": len(nc.pending_responses)}
    if nc.pending_responses:
        stats["probe_stale_pending_entry"] += 1
    return _finish(env, violations, records, diag, fault != "none" or stats.get("probe_out_of_order_arrival", 0) > 0
                   or stats.get("probe_two_or_more_pending", 0) > 0, fault)


def _finish(env, violations, records, diag, nontrivial, fault="none"):
    w = env.w
    sample = {"peer": env.peer_kind, "fault": fault, "cut": env.cut_fired, "frag_mode": env.net.frag_mode, "policy": w.policy,
              "calls": [f"{r['caller']}.{r['idx']} {r['msg']} -> {str(r.get('outcome'))[:60]} @[{r['inv_step']},{r['ret_step']}]" for r in records],
              "diag": diag}
    out = {"violations": violations, "stats": dict(w.stats), "digest": w.digest() + w.sched_digest(), "sched": w.sched_digest(),
           "sim_time": w.now, "steps": w.steps, "nontrivial": nontrivial, "sample": sample, "tail": list(w.tail)}
    leaked = env.shutdown()
    if leaked:
        out["stats"]["threads_leaked"] = leaked
    return out
