#!/bin/bash
# tools/try_seeded.sh <ID> <n> [check args]: apply /tmp/wt-<ID>/_out/<n>/patch.diff in the scratch worktree, run the property's
# check against that tree (VERIF_REPO), undo.  /repo is never touched.
id=$1; n=$2; shift 2
wt=/tmp/wt-$id
git -C $wt checkout -q -- . 
git -C $wt apply $wt/_out/$n/patch.diff 2>/dev/null || { git -C $wt apply --3way $wt/_out/$n/patch.diff >/dev/null 2>&1; git -C $wt reset -q; }
git -C $wt diff --stat | tail -1
VERIF_REPO=$wt VERIF_REPLAY_DIR=/tmp/try-replays-$id-$n timeout 1800 /verif/check $id --no-evidence "$@" 2>&1 | grep -E "^violation|tier=|HARNESS|^[A-Za-z]*Error" | cut -c1-330 | head -8
git -C $wt checkout -q -- .
