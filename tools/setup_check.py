#!/venv/bin/python
"""MANIFEST.setup_cmd: nothing to build or fetch - verify that the harness and the repository
import from the expected places with the interpreter the checks use."""
import os
import sys
import warnings

warnings.simplefilter("ignore")
HERE = os.path.dirname(os.path.dirname(os.path.abspath(__file__)))
sys.path.insert(0, HERE)
sys.path.insert(0, "/repo")
import sim.world, sim.simloop, sim.simfs, sim.runner, sim.chooser   # noqa: E401,E402
import klongpy   # noqa: E402
import aiohttp, websockets, pandas, numpy   # noqa: E401,E402
assert os.path.realpath(klongpy.__file__).startswith("/repo/"), klongpy.__file__
for d in ("evidence", "replays"):
    os.makedirs(os.path.join(HERE, d), exist_ok=True)
print("setup ok: python", sys.version.split()[0], "klongpy from", os.path.dirname(klongpy.__file__))
