#!/usr/bin/env python3
"""Writes /verif/seeded/README.md from the meta.json files left by tools/confirm_seeded.py."""
import json
import os

VERIF = os.path.dirname(os.path.dirname(os.path.abspath(__file__)))
root = os.path.join(VERIF, "seeded")
rows = []
for d in sorted(os.listdir(root)):
    mp = os.path.join(root, d, "meta.json")
    if not os.path.exists(mp):
        continue
    m = json.load(open(mp))
    notes = ""
    np_ = os.path.join(root, d, "notes.md")
    if os.path.exists(np_):
        txt = open(np_).read()
        notes = " ".join(txt.split())[:160]
    c = m.get("checks", {}).get(m["property"], {})
    if not c.get("caught"):
        # reported by the check of a neighbouring property (run with --check): say which
        for other, oc in m.get("checks", {}).items():
            if oc.get("caught"):
                c = dict(oc, violations=[f"violation sig=[by {other}] " + (oc.get("violations") or [""])[0].replace("violation sig=", "")])
                break
    stat = " ".join(s.strip() for s in m.get("diffstat", [])[:-1])[:70]
    sig = (c.get("violations") or [""])[0]
    sig = sig.split(" runs=")[0].replace("violation sig=", "")
    rows.append((d, m["property"], stat, m.get("confirmed"), m.get("demo_on_clean_tree", {}).get("exit"), m.get("demo_with_change", {}).get("exit"),
                 m.get("suite_with_change", {}).get("exit"), c.get("caught"), sig, c.get("wall_s")))
with open(os.path.join(root, "README.md"), "w") as f:
    f.write("# Seeded breaking changes\n\n"
            "Each directory holds one change written by a fresh sub-agent that was given only the text of the property and its own scratch\n"
            "worktree of briangu/klongpy (nothing from /verif): `patch.diff`, the agent's demonstration `demo.py` (passes on the clean tree,\n"
            "fails with the change), its `notes.md`, and `meta.json` written by `tools/confirm_seeded.py`, which re-checked everything in the\n"
            "scratch worktree: demo on the clean tree, demo with the change, the repository's test suite with the change (the baseline's\n"
            "always-failing `test_cli_exit` deselected; timer tests re-run alone when they flake under load), and finally the quick check of the\n"
            "property against the patched tree (`VERIF_REPO=<worktree> ./check <ID> --tier quick`; /repo itself is never modified).\n"
            "`replay-found-by-check.json`, where present, is the minimised replay the check produced for that change.\n\n"
            "| change | touches | confirmed (demo clean/changed, suite) | caught by ./check | first signature | wall s |\n|---|---|---|---|---|---|\n")
    for d, p, stat, conf, dc, dw, su, caught, sig, wall in rows:
        f.write(f"| {d} | {stat} | {'yes' if conf else 'NO'} ({dc}/{dw}, {su}) | {'**yes**' if caught else 'no'} | `{sig[:90]}` | {wall} |\n")
    n = len(rows)
    f.write(f"\n{sum(1 for r in rows if r[7])} of {n} changes are reported at the quick budget by the check of their property (or, where the first signature says so, of a neighbouring property); "
            f"{sum(1 for r in rows if r[3])} of {n} were confirmed as stated by their author.\n")
print(open(os.path.join(root, "README.md")).read())
