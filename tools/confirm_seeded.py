#!/usr/bin/env python3
"""Confirm the seeded changes a sub-agent left in /tmp/wt-<ID>/_out/<n>/ and measure whether the
check for <ID> catches them.

For each n: (1) demo on the clean worktree must pass; (2) patch applied: demo must fail;
(3) the repository's test suite must still pass with the patch (the baseline's always-failing
test is deselected); (4) ./check <ID> --tier quick is run against the patched worktree
(VERIF_REPO=<worktree>; /repo itself is never touched) and must exit 1.  Everything is stored
under /verif/seeded/<ID>-<n>/ (patch.diff, demo.py, notes.md, meta.json).

  tools/confirm_seeded.py C15 [--no-suite] [--scale 1.0] [--only 2]
"""
import argparse
import json
import os
import shutil
import subprocess
import sys
import time

VERIF = os.path.dirname(os.path.dirname(os.path.abspath(__file__)))
PY = "/venv/bin/python"
DESELECT = ["--deselect", "tests/test_cli_exit.py::TestCliExit::test_exit_from_file"]


def sh(cmd, cwd, timeout=1800, env=None):
    try:
        cp = subprocess.run(cmd, cwd=cwd, capture_output=True, text=True, timeout=timeout, env=env)
        return cp.returncode, (cp.stdout + cp.stderr)
    except subprocess.TimeoutExpired:
        return 124, "TIMEOUT"


def main():
    ap = argparse.ArgumentParser()
    ap.add_argument("pid")
    ap.add_argument("--no-suite", action="store_true")
    ap.add_argument("--scale", type=float, default=1.0)
    ap.add_argument("--only", type=int)
    ap.add_argument("--check", action="append", help="additional property checks to run against the change")
    ap.add_argument("--tag", default="", help="round tag, e.g. r2 -> seeded/<ID>-r2-<n>")
    args = ap.parse_args()
    wt = f"/tmp/wt-{args.pid}"
    out_root = os.path.join(wt, "_out")
    for n in sorted(os.listdir(out_root)):
        if not n.isdigit() or (args.only and int(n) != args.only):
            continue
        src = os.path.join(out_root, n)
        patch = os.path.join(src, "patch.diff")
        demo = os.path.join(src, "demo.py")
        if not (os.path.exists(patch) and os.path.exists(demo)):
            print(f"{args.pid}-{n}: incomplete (no patch or demo)")
            continue
        meta = {"property": args.pid, "n": int(n), "written_by": "sub-agent given only the property text and a scratch worktree"}
        sh(["git", "checkout", "--", "."], wt)
        rc, _ = sh(["git", "status", "--porcelain", "--untracked-files=no"], wt)
        rc_clean, o = sh([PY, demo], wt, timeout=600)
        meta["demo_on_clean_tree"] = {"exit": rc_clean, "tail": o.strip().splitlines()[-2:]}
        rc_apply, o = sh(["git", "apply", patch], wt)
        if rc_apply != 0:
            # the worktree may have been moved onto the repaired HEAD: fall back to a three-way merge of the patch
            rc_apply, o = sh(["git", "apply", "--3way", patch], wt)
            sh(["git", "reset", "-q"], wt)
            meta["applied_with_3way"] = rc_apply == 0
        _, hd = sh(["git", "rev-parse", "--short", "HEAD"], wt)
        meta["base_commit"] = hd.strip()
        meta["patch_applies"] = rc_apply == 0
        if rc_apply != 0:
            meta["apply_error"] = o[-300:]
        else:
            _, stat = sh(["git", "diff", "--stat"], wt)
            meta["diffstat"] = stat.strip().splitlines()
            rc_bad, o = sh([PY, demo], wt, timeout=600)
            meta["demo_with_change"] = {"exit": rc_bad, "tail": o.strip().splitlines()[-2:]}
            if not args.no_suite:
                t0 = time.time()
                rc_s, o = sh([PY, "-m", "pytest", "-q", "-p", "no:cacheprovider", "--timeout=900"] + DESELECT, wt, timeout=2400)
                tail = [l for l in o.strip().splitlines() if "passed" in l or "failed" in l][-1:] or o.strip().splitlines()[-1:]
                if rc_s != 0 and "test_sys_fn_timer" in o:
                    # timing-sensitive under load: re-run that file alone
                    rc_t, o2 = sh([PY, "-m", "pytest", "-q", "-p", "no:cacheprovider", "tests/test_sys_fn_timer.py"], wt, timeout=600)
                    tail.append("timer file alone: " + (o2.strip().splitlines() or ["?"])[-1])
                    failed = [l for l in o.splitlines() if l.startswith("FAILED")]
                    if rc_t == 0 and all("test_sys_fn_timer" in l for l in failed):
                        rc_s = 0
                meta["suite_with_change"] = {"exit": rc_s, "summary": tail, "wall_s": round(time.time() - t0)}
            # ---- does the check catch it?
            for prop in [args.pid] + (args.check or []):
                env = dict(os.environ)
                env["VERIF_REPO"] = wt
                env["VERIF_REPLAY_DIR"] = os.path.join(src, "replays")
                env.pop("VERIF_REEXEC", None)
                t0 = time.time()
                rc_c, o = sh([os.path.join(VERIF, "check"), prop, "--tier", "quick", "--scale", str(args.scale),
                              "--evidence-dir", os.path.join(src, "evidence")], VERIF, timeout=3000, env=env)
                sigs = [l[:260] for l in o.splitlines() if l.startswith("violation sig=")]
                meta.setdefault("checks", {})[prop] = {"cmd": f"VERIF_REPO=<patched tree> ./check {prop} --tier quick --scale {args.scale}",
                                                        "exit": rc_c, "caught": rc_c == 1, "violations": sigs[:4], "wall_s": round(time.time() - t0),
                                                        "tail": o.strip().splitlines()[-2:] if rc_c not in (0, 1) else []}
            sh(["git", "checkout", "--", "."], wt)
        ok = (meta["demo_on_clean_tree"]["exit"] == 0 and meta.get("patch_applies") and meta.get("demo_with_change", {}).get("exit", 0) != 0
              and (args.no_suite or meta.get("suite_with_change", {}).get("exit") == 0))
        meta["confirmed"] = bool(ok)
        dst = os.path.join(VERIF, "seeded", f"{args.pid}-{args.tag + '-' if args.tag else ''}{n}")
        os.makedirs(dst, exist_ok=True)
        for f in ("patch.diff", "demo.py", "notes.md"):
            if os.path.exists(os.path.join(src, f)):
                shutil.copy(os.path.join(src, f), os.path.join(dst, f))
        rep = os.path.join(src, "replays")
        if os.path.isdir(rep):
            for f in sorted(os.listdir(rep))[:1]:
                shutil.copy(os.path.join(rep, f), os.path.join(dst, "replay-found-by-check.json"))
        old = {}
        if os.path.exists(os.path.join(dst, "meta.json")):
            old = json.load(open(os.path.join(dst, "meta.json")))
            if args.no_suite and "suite_with_change" in old:
                meta["suite_with_change"] = old["suite_with_change"]
                meta["confirmed"] = bool(meta["demo_on_clean_tree"]["exit"] == 0 and meta.get("patch_applies") and
                                         meta.get("demo_with_change", {}).get("exit", 0) != 0 and old["suite_with_change"].get("exit") == 0)
        json.dump(meta, open(os.path.join(dst, "meta.json"), "w"), indent=1)
        c = meta.get("checks", {}).get(args.pid, {})
        print(f"{args.pid}-{n}: confirmed={meta['confirmed']} demo clean/changed={meta['demo_on_clean_tree']['exit']}/"
              f"{meta.get('demo_with_change', {}).get('exit')} suite={meta.get('suite_with_change', {}).get('exit')} "
              f"caught={c.get('caught')} ({c.get('wall_s')}s) {c.get('violations', [''])[0][:150] if c.get('violations') else c.get('tail')}", flush=True)


if __name__ == "__main__":
    main()
