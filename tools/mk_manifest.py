#!/usr/bin/env python3
"""Regenerates /verif/MANIFEST.json from the table below (kept in one place so that the
manifest is always valid and current)."""
import json
import os

VERIF = os.path.dirname(os.path.dirname(os.path.abspath(__file__)))

NA = {
    "C01": "pure function of verb x operands; no schedule, clock, I/O, peer or injected fault for a simulator to own (DESIGN.md section 5)",
    "C02": "pure function of adverb x verb x operand; no schedule, clock, I/O or fault (DESIGN.md section 5)",
    "C04": "sequential in-memory histories; the hidden state is memoisation only, nothing nondeterministic or faultable to control (DESIGN.md section 5)",
    "C05": "differential equivalence of two execution paths of a pure evaluator; no schedule/clock/I/O/fault (DESIGN.md section 5)",
    "C06": "numerical correctness of a pure function against an analytic oracle (DESIGN.md section 5)",
    "C08": "differential equivalence of two backends on pure programs (DESIGN.md section 5)",
    "C09": "sequential interop semantics; no concurrency or fault (DESIGN.md section 5)",
    "C10": "sequential in-memory map semantics (DESIGN.md section 5)",
    "C11": "pure round-trip of writer/reader over values (DESIGN.md section 5)",
    "C12": "termination/repeatability of a pure parser over strings; a work bound, not a schedule (DESIGN.md section 5)",
    "C19": "sequential in-memory table semantics; insert buffer flushed synchronously, no background activity (DESIGN.md section 5)",
}

CHECKS = {
    "C03": dict(level="fault_enumeration", engine="tickfault", ref="4/C03",
                technique="deterministic fault injection at every evaluation tick (exhaustive per generated program) with state oracle against a twin interpreter",
                text="for each seeded program the failure position is enumerated exhaustively (every tick x two exception classes, up to three nested calls and three consecutive failing programs); programs are sampled",
                note="only state reachable through the public API is compared; programs come from a closed grammar; sampling of programs, exhaustive in the fault dimension"),
    "C07": dict(level="fault_enumeration", engine="tickfault", ref="4/C07",
                technique="deterministic fault injection at the k-th evaluation of the differentiated function for every k, bit-exact global-state oracle",
                text="for each gradient form x loss x parameter kind the failing evaluation index and failure kind are enumerated exhaustively; cases are sampled from a seeded grid",
                note="numpy backend always, torch(cpu) where stated in the evidence; gradient values themselves are not judged (C06)"),
    "C13": dict(level="exploration", engine="world+simloop+simnet", ref="4/C13",
                technique="deterministic simulation: real IPC client/server on virtual-time event loops over an in-memory network with seeded fragmentation and scheduling; differential oracle against a twin interpreter; exhaustive stream-cut enumeration for short frames",
                text="seeded search over operation sequences, byte-stream fragmentations and thread/loop interleavings; the component-level cut enumeration of 1-3 frames into up to 3 reads is exhaustive",
                note="kernel TCP, selector and OS scheduler are models (in-order lossless pipes; baton passing); a clean batch is evidence, not proof"),
    "C14": dict(level="exploration", engine="world+simloop+simnet", ref="4/C14",
                technique="deterministic simulation with fault injection: concurrent callers in both directions of a connection against the real server and a scripted adversarial peer; connection cut (FIN/RST/ETIMEDOUT) or stall at every byte class of a frame and every point of the call sequence; close and server shutdown racing; source-line pre-emption concentrated in the clean-up of the pending table; quiescence-based hang detection; at-most-once oracle on serving-side effects",
                text="seeded search over response arrival orders, fragmentations, cut/stall positions and kinds and interleavings (line-level pre-emption inside sys_fn_ipc.py, uniformly and concentrated in named functions); liveness judged at quiescence after the last fault, never by wall clock",
                note="TCP guarantees (order, no loss/duplication inside a live connection) are kept; a stall is a finite delay (klongpy has no timeouts and the property does not promise any); sockets are closed when connection_lost runs on the owning loop, as asyncio does"),
    "C15": dict(level="exploration", engine="world+simloop", ref="4/C15",
                technique="deterministic simulation on a virtual-time event loop: seeded callback scripts, start times, external cancellations (from the loop and, in the xthread configuration, from another thread with source-line pre-emption inside the periodic runner) and per-deadline dispatch latency; reference model of an ideal periodic timer over the recorded tick log, overlap-aware for cross-thread cancellations",
                text="seeded search over callback scripts x intervals (literal and computed) x awkward start times x dispatch latencies (exact / early within clock resolution / late) x cancellation times and threads x re-creation of a timer after its death",
                note="tolerance of one clock resolution + 4 ulp on boundaries; behaviour after a raising callback is unspecified and only checked for early/double ticks"),
    "C16": dict(level="exploration", engine="world+simfs", ref="4/C16",
                technique="deterministic simulation of the store over an in-memory file system with scheduler-owned worker tasks and virtual LRU clock; sequential histories with reopen/unload/eviction checked against a dictionary model plus cache invariants after every operation",
                text="seeded search over operation histories (<=25 ops), key shapes, value kinds and cache limits from 'fits one entry' to 'fits everything', for the key-value and the table store",
                note="prefix-free key sets; single caller (concurrency is C18); SimFS is a model of a POSIX namespace"),
    "C17": dict(level="fault_enumeration", engine="simfs-crash", ref="4/C17",
                technique="crash-point enumeration: every prefix of the recorded file-system operation trace x every persistence outcome of the stated POSIX-style model, each materialised and re-opened; plus a real process killed at every operation boundary on a real directory",
                text="crash points and persistence outcomes are enumerated exhaustively per generated history of 1-4 sets; histories are sampled",
                note="persistence model A-FS (DESIGN.md 3.6): journalled metadata, fsync commits file content and journal, un-synced data persists as none/prefix/all; a killed process loses no page cache so realkill judges isolation only"),
    "C18": dict(level="exploration", engine="world+simthreads+simfs", ref="4/C18",
                technique="deterministic simulation of 2-3 client threads and the worker tasks under a seeded baton-passing scheduler (lock, submit, future-wait, file-system and optional source-line pre-emption points); Wing-Gong linearizability check per file against a sequential register; final-state and accounting invariants at quiescence",
                text="seeded search over interleavings with up to 3 clients x 2 ops x 2 files and drawn cache limits; per-file histories <= 6 operations are checked exhaustively for a linearization",
                note="pre-emption only at intercepted points and drawn line events; races inside a single bytecode or inside C code are out of reach"),
    "C20": dict(level="exploration", engine="world+simloop+simnet", ref="4/C20",
                technique="deterministic simulation: real aiohttp server and real websockets client on virtual-time loops over the in-memory network; scripted raw-HTTP peer with seeded fragmentation and disconnects; recorder log checked against a twin handler evaluation",
                text="seeded search over route tables, request sequences (good, unknown path, wrong method, raising handler, disconnect mid-request), parameter dictionaries, handler redefinition and websocket message sequences",
                note="no repeated query keys; handlers have the documented arity; incomplete requests carry no obligation except that the server keeps serving"),
}

DONE_FILE = os.path.join(VERIF, "tools", "claimed.txt")


def main():
    claimed = [l.strip() for l in open(DONE_FILE) if l.strip() and not l.startswith("#")]
    checks = []
    for pid in sorted(claimed):
        c = CHECKS[pid]
        checks.append({
            "property_id": pid,
            "quick_cmd": f"./check {pid} --tier quick",
            "thorough_cmd": f"./check {pid} --tier thorough",
            "evidence_file": f"/verif/evidence/{pid}.json",
            "replay_cmd_template": f"./check {pid} --replay {{path}}",
            "engine": c["engine"],
            "level_claimed": {"category": c["level"], "text": c["text"], "design_ref": f"DESIGN.md section {c['ref']}"},
            "level_note": c["note"],
            "technique": c["technique"],
        })
    na = [{"property_id": k, "reason": v} for k, v in NA.items()]
    for pid in sorted(CHECKS):
        if pid not in claimed:
            na.append({"property_id": pid, "reason": "claimed in DESIGN.md; its check is still under construction and therefore not registered yet"})
    m = {
        "version": 1,
        "setup_cmd": "/venv/bin/python /verif/tools/setup_check.py",
        "hooks": {
            "guard": "KLONGPY_VERIF",
            "enable": "no source hooks in /repo: every seam is an injection point klongpy already has or a module attribute replaced from the harness (DESIGN.md 3.8); checks import /repo's working tree directly",
            "baseline_off_cmd": "cd /repo && /venv/bin/python -m pytest -ra -q -p no:cacheprovider --timeout=900 --continue-on-collection-errors",
            "source_commits": [],
            "add_only": True,
        },
        "engines": [
            {"name": "world", "path": "sim/world.py", "serves_properties": ["C13", "C14", "C15", "C16", "C17", "C18", "C20"],
             "kind_free_text": "baton-passing deterministic scheduler for real threads; Chooser tape (sim/chooser.py) for replay and shrinking"},
            {"name": "simloop+simnet", "path": "sim/simloop.py", "serves_properties": ["C13", "C14", "C15", "C20"],
             "kind_free_text": "virtual-time asyncio event loop (BaseEventLoop subclass) and in-memory TCP with seeded fragmentation, FIN/RST cuts"},
            {"name": "simfs", "path": "sim/simfs.py", "serves_properties": ["C16", "C17", "C18"],
             "kind_free_text": "raw-level in-memory file system with operation trace and crash-image enumeration"},
            {"name": "runner", "path": "sim/runner.py", "serves_properties": sorted(CHECKS),
             "kind_free_text": "seeded parallel search, known-finding filter, tape shrinking, fresh-process replay confirmation, evidence writer"},
        ],
        "checks": checks,
        "notes": "Exit codes: 0 held, 1 VIOLATION (only after the minimised replay reproduced in a fresh process), 3 harness error. "
                 "VERIF_SEED / --seed selects the base seed, VERIF_TIER / --tier the tier. selftest/mutants.py and selftest/determinism.py are the sensitivity and determinism self-tests.",
        "not_applicable": na,
    }
    with open(os.path.join(VERIF, "MANIFEST.json"), "w") as f:
        json.dump(m, f, indent=1)
    print("claimed:", claimed)


if __name__ == "__main__":
    main()
